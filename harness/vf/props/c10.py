"""C10 — production vectors solve the K-matrix equation and honour their arguments.

spec/KMatrixRef.tla        F = (1-iK)^-1 P and its relativistic analogue by Cramer's rule on the
                           whole lattice, every law an invariant (exhaustive TLC)
spec/Trace_KMatrix.tla     the IMPLEMENTATION's exact F^, F at every lattice point (skeleton of
                           NonRelativisticPVector / RelativisticPVector), production-vector pole
                           terms as bags, formulate = skeleton o parametrisation, the dataflow law
                           (phase-space class / L / radius occurring anywhere in a result, including
                           the non-SymPy phsp_factor attribute of EnergyDependentWidth nodes), the
                           one-channel one-pole reduction
spec/KMatrixCalls.tla      state machine of formulate() calls over the functools.cache'd
                           _create_matrices; TLC enumerates every call sequence of length <= 3, the
                           driver executes each in one process (fork per branch) and
spec/Trace_KMatrixCalls.tla compares every result with the same call in a fresh process."""
from __future__ import annotations

import json
import multiprocessing as mp
import random
import subprocess
import sys
import time
from concurrent.futures import ProcessPoolExecutor, ThreadPoolExecutor

from .. import kmatrix_common as kc
from .. import tlc, trace
from ..core import Machinery, child_env
from . import c09

LEVEL = "model_checking"
META = {
    "technique": "TLA+ KMatrixLaw/KMatrixRef: production-vector laws (1-iK)F=P, (sqrt(rho)*-iK sqrt(rho))F^=sqrt(rho)*P, "
    "F=sqrt(rho)F^ in Gaussian-rational arithmetic, model-checked exhaustively with TLC on a Cramer reference; the "
    "implementation's exact F^/F (parametrize=False skeleton, SymPy Rationals) judged per lattice point by TLC "
    "(Trace_KMatrix, lattice point decoded in the spec); dataflow law over the expression tree of every formulate() result; "
    "state machine KMatrixCalls over the four functools caches with TLC enumerating all call sequences of length<=3, "
    "executed against ampform with a fork per branch and validated by Trace_KMatrixCalls against fresh-process results",
    "text": "TLC evaluates the production-vector equations exactly on the matrices the library builds at every point of a "
    "lattice (1-2 channels; 3 for the non-relativistic vector in the thorough tier), states as a law which phase-space "
    "class, angular momentum and radius may occur anywhere in a result for every combination of class, channels, poles, "
    "flag and argument, and explores every order of formulate() calls sharing the process-global caches: argument "
    "dataflow and call histories are quantifiers no fixed-string test covers.",
    "note": "Trusted: TLC/SANY, SymPy exact arithmetic, preorder_traversal/srepr as the identity of a result, fork() as a "
    "faithful copy of process state. Bounds: lattice as in C09; phase-space implementations = the five library classes, "
    "BreakupMomentumSquared and a custom protocol class (chew_mandelstam_s_wave leaves no node and cannot be tracked); "
    "L 0..4, radii 1..3; call alphabets of 11 (quick) / 18 (thorough) calls, sequences of length <= 3. "
    "RelativisticPVector with 3 channels is not formulated (its skeleton takes > 45 min). The Breit-Wigner reduction is "
    "compared numerically (30 digits, seeded points) following the documentation's own procedure.",
    "design_ref": "DESIGN.md §4 C10",
}

CALLS_CFG = """SPECIFICATION {spec}
CONSTANTS
 Calls <- {calls}
 MaxLen = {maxlen}
 Dev {dev}
 Emit = {emit}
{tail}CHECK_DEADLOCK FALSE
"""

FLOW_SIG = {
    "phsp-at-rho": "phsp_factor-not-used-for-rho",
    "phsp-in-widths": "phsp_factor-not-forwarded-to-widths",
    "angular-momentum-in-widths": "angular_momentum-not-forwarded-to-widths",
    "meson-radius-in-widths": "meson_radius-not-forwarded-to-widths",
    "angular-momentum-in-form-factors": "angular_momentum-not-forwarded-to-form-factors",
    "meson-radius-in-form-factors": "meson_radius-not-forwarded-to-form-factors",
    "channel-masses": "channel-masses-of-another-channel",
    "n-poles": "n_poles-not-honoured",
}
P_LAWS = {"(1-iK)F=P", "F=(1+iT)P", "(sqrt(rho)*-iK.sqrt(rho))Fhat=sqrt(rho)*P", "F=sqrt(rho)Fhat", "(1-iK)F=sqrt(rho)P"}


def calls_cfg(tier, spec="Spec", dev="<- NoDev", emit="TRUE", tail="INVARIANT Pure\n"):
    return CALLS_CFG.format(spec=spec, calls="CallsQuick" if tier == "quick" else "CallsThorough", maxlen=3, dev=dev, emit=emit, tail=tail)


def desc(c):
    cls = kc.CLS[c["cls"]]
    fl = f", {kc.FLAG[c['cls']]}={c['flag']}" if c["cls"] in kc.FLAG else ""
    return (f"{cls}.formulate(n_channels={c['n']}, n_poles={c['np']}, parametrize={c['par']}{fl}, "
            f"phsp_factor={c['X']}, angular_momentum={c['L']}, meson_radius={c['d']})")


def run_histories(chk, tier, replay_seq=None):
    """spec -> code: TLC enumerates the call sequences, the executor runs them, TLC judges."""
    res = tlc.run("KMatrixCalls", calls_cfg(tier), workers=1, timeout=600)
    if not res.ok:
        raise Machinery(f"KMatrixCalls violates {res.violated} with Dev = {{}}: specification error")
    chk.add_tlc("calls_exhaustive", res)
    seqs = [tuple(p[1]) for p in res.prints if isinstance(p, tuple) and p and p[0] == "SEQ"]
    alpha = [p for p in res.prints if isinstance(p, tuple) and p and p[0] == "ALPHABET"]
    if not alpha or not seqs:
        raise Machinery("KMatrixCalls printed no alphabet / sequences")
    calls = []
    for c in alpha[0][1]:
        a = alpha[0][2][c["a"] - 1]
        calls.append({"cls": c["cls"], "n": c["n"], "np": c["np"], "flag": bool(c["flag"]), "par": bool(c["par"]),
                      "X": a["X"], "L": a["L"], "d": a["d"]})
    A = len(calls)
    if len(set(seqs)) != A + A * A + A**3:
        raise Machinery(f"TLC enumerated {len(set(seqs))} call sequences, expected {A + A * A + A ** 3}")
    # sensitivity of the model: each deviation must violate Pure
    sens = {}
    for dev in ("KeyWithoutFlag", "InPlaceEdit"):
        r = tlc.run("KMatrixCalls", calls_cfg(tier, dev=f'= {{"{dev}"}}', emit="FALSE"), workers=1, timeout=600)
        if r.ok:
            raise Machinery(f"KMatrixCalls is insensitive to deviation {dev}")
        sens[dev] = r.violated
    chk.part("calls_deviation_sensitivity", **sens)

    t0 = time.time()
    p = subprocess.run([sys.executable, "-m", "vf.kmatrix_exec"], input=json.dumps({"calls": calls, "maxlen": 3, "procs": 10}),
                       capture_output=True, text=True, env=child_env(), timeout=3000)
    if p.returncode != 0:
        raise Machinery(f"call-history executor failed:\n{p.stderr[-3000:]}")
    out = json.loads(p.stdout)
    if out["errors"] or out["failed"]:
        raise Machinery(f"call-history executor reported errors: {out['errors'][:2]} {out['failed'][:3]}")
    dmap = {tuple(e[0]): e[1] for e in out["edges"]}
    if set(dmap) != set(seqs):
        raise Machinery(f"executed {len(dmap)} histories, the specification has {len(set(seqs))}")
    digs = {}

    def did(d):
        return digs.setdefault(d, len(digs))

    recs = []
    for k in sorted(out["fresh"], key=int):
        recs.append({"k": "fresh", "call": int(k), "dig": did(out["fresh"][k])})
    leaves = sorted(s for s in dmap if len(s) == 3)
    for sid, path in enumerate(leaves, 1):
        for pos in range(1, 4):
            recs.append({"k": "hist", "sid": sid, "pos": pos, "call": path[pos - 1], "dig": did(dmap[path[:pos]])})
    recs.append({"k": "end"})
    for i, r in enumerate(recs):
        r["id"] = i + 1
    tv = trace.validate("Trace_KMatrixCalls", recs, cfg=calls_cfg(tier, spec="TraceSpec", emit="FALSE", tail="POSTCONDITION TraceAccepted\n"), timeout=1500)
    chk.add_tlc("trace_call_histories", tv.res, traces=len(leaves))
    chk.part("trace_call_histories", alphabet=[desc(c) for c in calls], histories=len(leaves), prefixes=len(dmap),
             distinct_results=len(digs), exec_s=round(time.time() - t0, 1), stats=tv.stats)
    chk.count(len(dmap))
    for s in dmap:
        if len(set(s)) > 1:
            chk.nontrivial(("hist", s))
    chk.sample({"kind": "history", "calls": [desc(calls[k - 1]) for k in leaves[len(leaves) // 3]],
                "results_equal_fresh": [dmap[leaves[len(leaves) // 3][:i]] == out["fresh"][str(leaves[len(leaves) // 3][i - 1])] for i in (1, 2, 3)]})
    if tv.stats.get("hist", 0) != 3 * len(leaves):
        raise Machinery(f"Trace_KMatrixCalls consumed {tv.stats.get('hist')} history records of {3 * len(leaves)}")
    # classify
    hist_fail = []
    for rej in tv.rejects:
        name = rej[0]
        if name in ("call-index", "behaviour", "model-pure"):
            raise Machinery(f"history trace left the model: {rej}")
        if name == "result-depends-on-arguments-only":
            info = rej[2]
            hist_fail.append(tuple(info[2]))
        elif name == "fresh-results-separate-exactly-the-different-calls":
            k = rej[2][0]
            fresh = rej[2][2]
            others = [j + 1 for j in range(len(calls)) if j + 1 != k and fresh[j] != -1
                      and (fresh[j] == rej[2][1]) != (same_result(calls[j], calls[k - 1]))]
            for j in others:
                a, b = calls[j - 1], calls[k - 1]
                what = "same-result-for-different-arguments" if fresh[j - 1] == rej[2][1] else "different-result-for-equivalent-calls"
                chk.violation(f"{kc.CLS[b['cls']]}.formulate:{what}:{diff_fields(a, b)}",
                              f"in fresh processes {desc(a)} and {desc(b)} give {'the same' if fresh[j - 1] == rej[2][1] else 'different'} result(s)",
                              {"kind": "fresh", "calls": [a, b]})
    if hist_fail:
        best = min(hist_fail, key=lambda h: (len(h), h))
        cs = [calls[k - 1] for k in best]
        chk.violation(
            f"{kc.CLS[cs[-1]['cls']]}.formulate:result-depends-on-call-history:{short(cs[-1])}:after:{'+'.join(short(c) for c in cs[:-1])}",
            f"{desc(cs[-1])} returns a different result after {[desc(c) for c in cs[:-1]]} in the same process than in a fresh process "
            f"({len(hist_fail)} failing histories of {len(leaves)})", {"kind": "history", "calls": cs})


def alias_probe(_=None):
    """Outside the property text (a client write is not an action C10 quantifies over), recorded
    as a note: does formulate(parametrize=False) hand out the functools.cache'd mutable matrix?
    Runs in a process of its own because it writes into the returned object."""
    import sympy as sp

    found = []
    for tag in ("NRK", "NRP", "RelK", "RelP"):
        for flag in ((False, True) if tag in kc.FLAG else (False,)):
            M = kc.skeleton(tag, 1, flag)
            if isinstance(M, sp.MutableDenseMatrix) and M is kc.skeleton(tag, 1, flag):
                before = sp.srepr(kc.formulate(tag, 1, 1, flag))
                M[0, 0] = 7
                after = kc.formulate(tag, 1, 1, flag)
                if sp.srepr(after) != before:
                    found.append(f"{kc.CLS[tag]}({kc.FLAG.get(tag, 'flag')}={flag}): after M = formulate(n_channels=1, n_poles=1, parametrize=False); "
                                 f"M[0,0] = 7, formulate(n_channels=1, n_poles=1) returns {after}")
    return found


def same_result(a, b):
    rel = lambda c: c["cls"] in ("RelK", "RelP")  # noqa: E731
    key = lambda c: (c["cls"], c["n"], c["flag"] if rel(c) else False, (c["np"], (c["X"], c["L"], c["d"]) if rel(c) else 0) if c["par"] else None)  # noqa: E731
    return key(a) == key(b)


def diff_fields(a, b):
    return "+".join(k for k in ("cls", "n", "np", "flag", "par", "X", "L", "d") if a[k] != b[k]) or "none"


def short(c):
    fl = f",{kc.FLAG[c['cls']]}={c['flag']}" if c["cls"] in kc.FLAG else ""
    return f"{c['cls']}(n={c['n']},np={c['np']},par={c['par']}{fl},{c['X']},L={c['L']},d={c['d']})"


def run(chk, replay=None):
    tier = chk.tier
    rng = random.Random(chk.seed)
    t0 = time.time()
    chk.assume(
        "TLC/SANY; TLC's 32-bit integer arithmetic (overflow aborts the run: machinery failure, never a verdict)",
        "SymPy: exact rational arithmetic, xreplace, preorder_traversal visits every node of a result; sympy.srepr plus the "
        "phsp_factor/name attributes of EnergyDependentWidth nodes identify a result",
        "os.fork() gives each branch of the call tree an exact copy of the process-global state of its prefix",
        "phase-space implementations are recognised by node class (five library classes, BreakupMomentumSquared, one custom "
        "protocol class defined by the harness); chew_mandelstam_s_wave leaves no node of its own and is not used as an argument",
        "Breit-Wigner reduction: numeric comparison at 30 digits on seeded points above threshold; for the F^ = BW identity only "
        "phase-space implementations that are real above threshold",
    )
    case = (replay or {}).get("case") or {}
    tags = ("NRP", "RelP")
    pool = ProcessPoolExecutor(max_workers=10, mp_context=mp.get_context("fork"))
    tpool = ThreadPoolExecutor(max_workers=4)
    n3 = {}
    try:
        ref_future = hist_future = None
        if not replay:
            ref_future = tpool.submit(c09.run_reference, chk, 4, True)
        if not replay or case.get("kind") in ("history", "fresh"):
            hist_future = tpool.submit(run_histories, chk, tier)

        # lattice (skeleton of the production vectors)
        if tier == "thorough" and not replay:
            size = kc.cls_size("NRP", 3)
            n3 = {"NRP": sorted(rng.sample(range(size), 600))}
        if case.get("kind") == "skel":
            pts = [(case["ord"], case.get("sub_rx"))]
            jobs = [(case["cls"], case["n"], name, flag, pts) for name, flag in kc.MATS[case["cls"]]]
            plan = [("sample", case["cls"], case["n"], pts)]
        elif replay:
            jobs, plan = [], []
        else:
            jobs, plan = c09.lattice_jobs(tags, tier, rng, n3)
        lattice_futs = [pool.submit(kc.work_eval, j) for j in jobs]

        # terms, composition, dataflow, reduction
        ppjobs, cjobs, fgroups, rjobs = [], [], {}, []
        if not replay or case.get("kind") in ("pparam", "compose", "flow", "reduce"):
            nps = (1, 2) if tier == "quick" else (1, 2, 3)
            argsets = [(0, 1), (2, 3), (4, 2)] if tier == "quick" else [(L, d) for L in range(5) for d in (1, 3)]
            for i in range(3):
                for np_ in nps:
                    ppjobs.append(("NRP", i, np_, 0, 0, chk.seed))
                    for L, d in argsets:
                        ppjobs.append(("RelP", i, np_, L, d, chk.seed))
            for n in (1, 2):
                for np_ in nps[:2]:
                    cjobs.append(("NRP", n, np_, False, 0, 1, "none", chk.seed))
                    for flag in (False, True):
                        cjobs.append(("RelP", n, np_, flag, 0, 1, "none", chk.seed))
                        for (L, d), X in zip(argsets, ("PhaseSpaceFactorAbs", "VfPhaseSpace", "BreakupMomentumSquared", "PhaseSpaceFactorSWave")):
                            cjobs.append(("RelP", n, np_, flag, L, d, X, chk.seed))
            if tier == "thorough":
                cjobs.append(("NRP", 3, 1, False, 0, 1, "none", chk.seed))
            # dataflow: class x n x poles x phase-space implementation x (L, d) x flag
            for tag in ("RelK", "RelP", "NRK", "NRP"):
                rel = tag in kc.FLAG
                for n in ((1, 2) if tier == "quick" or tag == "RelP" else (1, 2, 3)):
                    for flag in ((False, True) if rel else (False,)):
                        for np_ in nps:
                            for X in (kc.ALL_X if rel else ("PhaseSpaceFactorAbs", "VfPhaseSpace")):
                                for L, d in (argsets if rel else argsets[:2]):
                                    if n == 3 and (np_ > 2 or d != 1):
                                        continue
                                    fgroups.setdefault((tag, n, flag) if n == 3 else (tag, n, flag, np_, X), []).append((tag, n, np_, flag, L, d, X))
            # one channel, one pole
            for L, d in argsets:
                rjobs.append(("NRK", "T", 0, 1, "none", 0, chk.seed))
                rjobs.append(("NRP", "F", 0, 1, "none", 0, chk.seed))
                rjobs.append(("NRP", "F", 0, 1, "none", 1, chk.seed))
                for X in kc.ALL_X:
                    for unit in (0, 1):
                        rjobs.append(("RelP", "Fdoc", L, d, X, unit, chk.seed + L))
                    rjobs.append(("RelK", "That", L, d, X, 0, chk.seed + L))
                    if X in kc.REAL_X:
                        rjobs.append(("RelK", "T", L, d, X, 0, chk.seed + L))
                        rjobs.append(("RelP", "Fhat", L, d, X, 1, chk.seed + L))
                        rjobs.append(("RelP", "F", L, d, X, 0, chk.seed + L))
            rjobs = sorted(set(rjobs))
        if case.get("kind") in ("pparam", "compose", "flow", "reduce"):
            ppjobs = [tuple(case["job"])] if case["kind"] == "pparam" else []
            cjobs = [tuple(case["job"])] if case["kind"] == "compose" else []
            fgroups = {0: [tuple(case["job"])]} if case["kind"] == "flow" else {}
            rjobs = [tuple(case["job"])] if case["kind"] == "reduce" else []
        ffut = [pool.submit(kc.work_flow_group, g) for _, g in sorted(fgroups.items(), key=lambda kv: -kv[1][0][1])]
        cfut = [pool.submit(kc.work_compose, j) for j in sorted(cjobs, key=lambda j: -j[1])]
        ppfut = [pool.submit(kc.work_pparam, j) for j in ppjobs]
        rfut = [pool.submit(kc.work_reduce, j) for j in rjobs]

        results = [f.result() for f in lattice_futs]
        skel_recs, errors = c09.build_skel_records(results, plan)
        t_lattice = time.time() - t0
        trecs = [f.result() for f in ppfut] + [f.result() for f in cfut] + [r for f in ffut for r in f.result()] + [f.result() for f in rfut]
        t_terms = time.time() - t0
    finally:
        pool.shutdown(wait=True, cancel_futures=True)

    for tag, n, o, sub, bad in errors:
        if sub:  # a pole of the amplitude below threshold: not in the property's domain
            continue
        chk.violation(f"{kc.CLS[tag]}.formulate(parametrize=False):not-finite-on-lattice:n_channels={n}",
                      f"the skeleton has no finite exact value at lattice ordinal {o}: {bad}", {"kind": "skel", "cls": tag, "n": n, "ord": o, "sub_rx": None})

    def validate(recs):
        recs = [dict(r) for r in recs] + [{"k": "end"}]
        for i, r in enumerate(recs):
            r["id"] = i + 1
        tv = trace.validate("Trace_KMatrix", [kc.strip(r) for r in recs], timeout=1500, heap="4g")
        return tv, {r["id"]: r for r in recs}

    groups, cur = [], []
    for r in skel_recs:
        cur.append(r)
        if r["k"] == "endrun" and len(cur) > 700:
            groups.append(cur)
            cur = []
    if cur:
        groups.append(cur)
    futs = [tpool.submit(validate, g) for g in groups]
    tfut = tpool.submit(validate, trecs) if trecs else None
    verdicts = [f.result() for f in futs]
    stats, n_skel = {}, 0
    segs = {}
    for i, (tv, by_id) in enumerate(verdicts):
        chk.add_tlc(f"trace_skeleton_{i}", tv.res, traces=sum(1 for r in by_id.values() if r["k"] == "skel"))
        for k, v in tv.stats.items():
            stats[k] = stats.get(k, 0) + v
        # C10 states the production equations themselves: they are property clauses here
        c09.handle_skel_rejects(chk, tv, by_id, P_LAWS)
        for p in tv.res.prints:
            if isinstance(p, tuple) and p and p[0] == "RUN":
                segs.setdefault((p[1], p[2]), []).append((p[3], p[4]))
        for r in by_id.values():
            if r["k"] == "skel":
                n_skel += 1
                chk.count(1)
                if r.get("oob", 0) == 2:
                    raise Machinery(f"F at {r['cls']} n={r['n']} ordinal {r['ord']} does not fit 32-bit integers")
                if r["sub"] == 0 and kc.nontrivial_point(r["n"], r["kx"]):
                    chk.nontrivial(("skel", r["cls"], r["n"], r["ord"]))
                if r["cls"] == "RelP" and r["n"] == 2 and r["kx"][1] != 2 and r["rx"][0] != r["rx"][1] and r["sub"] == 0:
                    chk.sample({"kind": "skel", "cls": r["cls"], "ordinal": r["ord"], "K": r["K"], "rho": r["rho"], "P": r["P"], "Fhat": r["Fhat"], "F": r["F"]}, limit=2)
    complete = {}
    if not replay:
        for tag in tags:
            for n in (1, 2):
                pos = 0
                for lo, hi in sorted(segs.get((tag, n), [])):
                    if lo == pos:
                        pos = hi
                complete[f"{tag}/n={n}"] = pos == kc.cls_size(tag, n)
        if not errors and not all(complete.values()):
            raise Machinery(f"the accepted runs do not tile the lattice: {complete}")
        if stats.get("plaw", 0) == 0:
            raise Machinery("vacuous: no production-vector law evaluated")

    if tfut:
        tv, by_id = tfut.result()
        chk.add_tlc("trace_terms_dataflow_reduction", tv.res, traces=len(by_id) - 1)
        for k, v in tv.stats.items():
            stats[k] = stats.get(k, 0) + v
        by_rec = {}
        for rej in tv.rejects:
            by_rec.setdefault(rej[1], []).append(rej)
        # dataflow rejections first: a wrong argument is the root cause of the numeric differences
        # that the compose / reduce records of the same class then show, which are reported
        # under the root cause's signature instead of as findings of their own
        order = sorted(by_rec.items(), key=lambda kv: (by_id[kv[0]]["k"] != "flow", kv[0]))
        rooted = {}

        def root_of(rec):
            for what, default in (("X", ("PhaseSpaceFactor", "none")), ("L", (0,)), ("d", (1,))):
                if (rec["cls"], what) in rooted and rec[what] not in default:
                    return rooted[(rec["cls"], what)]
            return None

        for rid, rejs in order:
            rec = by_id[rid]
            names = {r[0] for r in rejs}
            if names & c09.MACHINERY_CLAUSES:
                raise Machinery(f"driver and specification disagree on record {rid}: {sorted(names)}\n{str(rec)[:800]}")
            cls = kc.CLS[rec["cls"]]
            if rec["k"] == "pparam":
                job = [rec["cls"], rec["i"], rec["np"], rec["L"], rec["d"], chk.seed]
                diff = kc.adjudicate_pparam(*job)
                if diff > 1e-9:
                    chk.violation(f"{cls}.parametrization:production-residues",
                                  f"parametrization(i={rec['i']}, n_poles={rec['np']}, L={rec['L']}, d={rec['d']}) projects to {rec['t1']}; expected "
                                  f"sum_R beta[R] gamma[R,i] m[R] Gamma[R,i] F_L(s, m_a[i], m_b[i]) / (m[R]^2 - s); numeric difference {diff:.3g}",
                                  {"kind": "pparam", "job": job})
                else:
                    chk.spec_drift(f"{cls}.parametrization(i={rec['i']}) has an unexpected term shape but equals the expected formula numerically")
            elif rec["k"] == "flow":
                job = [rec["cls"], rec["n"], rec["np"], bool(rec["flag"]), rec["L"], rec["d"], rec["X"]]
                for c in sorted(names):
                    sig = f"{cls}.formulate:{FLOW_SIG.get(c, c)}"
                    what = "X" if c.startswith("phsp") else "L" if c.startswith("angular") else "d" if c.startswith("meson") else None
                    if what:
                        rooted.setdefault((rec["cls"], what), sig)
                    chk.violation(sig,
                                  f"formulate(n_channels={rec['n']}, n_poles={rec['np']}, flag={rec['flag']}, phsp_factor={rec['X']}, angular_momentum={rec['L']}, "
                                  f"meson_radius={rec['d']}): clause '{c}' rejected; occurring phase-space classes at rho {rec['xrho']}, in EnergyDependentWidth.phsp_factor "
                                  f"{rec['xwidth']}, L in widths {rec['lwidth']} / form factors {rec['lff']}, radii {rec['dwidth']} / {rec['dff']}, sums {rec['sums']}",
                                  {"kind": "flow", "job": job})
            elif rec["k"] == "compose" and names == {"compose-maps"}:
                chk.spec_drift(f"{cls}.formulate(parametrize=False) (n={rec['n']}) does not contain one symbol per K_ij / P_i / rho_i slot "
                               f"(K slots {rec['kmap']}, P {rec['pmap']}, rho {rec['rmap']}): composition not checked for it")
            elif rec["k"] == "compose":
                job = [rec["cls"], rec["n"], rec["np"], bool(rec["flag"]), rec["L"], rec["d"], rec["X"], chk.seed]
                if root_of(rec):
                    chk.note(f"consequence of {root_of(rec)}: formulate{tuple(job[1:7])} differs numerically (rel. {rec['_diff']:.3g}) from skeleton o parametrisation")
                    continue
                chk.violation(f"{cls}.formulate:not-skeleton-of-parametrization",
                              f"formulate(n_channels={rec['n']}, n_poles={rec['np']}, flag={rec['flag']}, phsp={rec['X']}, L={rec['L']}, d={rec['d']}) differs "
                              f"numerically (rel. {rec['_diff']:.3g}) from its parametrize=False skeleton with K_ij := K-matrix parametrization(i,j) "
                              "with the same arguments, P_i := parametrization(i), rho_i := phsp(s, m_a[i], m_b[i])", {"kind": "compose", "job": job})
            elif rec["k"] == "reduce":
                job = [rec["cls"], rec["form"], rec["L"], rec["d"], rec["X"], rec["unit"], chk.seed + rec["L"]]
                if root_of(rec):
                    chk.note(f"consequence of {root_of(rec)}: one-channel one-pole {rec['form']} (phsp={rec['X']}, L={rec['L']}, d={rec['d']}) differs from the Breit-Wigner form by {rec['_diff']:.3g}")
                    continue
                target = {"NRK": "relativistic_breit_wigner", "NRP": "relativistic_breit_wigner", "RelK": "breit-wigner-with-energy-dependent-width",
                          "RelP": "relativistic_breit_wigner_with_ff"}[rec["cls"]]
                chk.violation(f"{cls}.formulate(n_channels=1,n_poles=1):does-not-reduce-to-{target}:{rec['form']}",
                              f"{rec['form']} for phsp={rec['X']}, L={rec['L']}, d={rec['d']}, gamma=beta=1: {bool(rec['unit'])}: relative difference {rec['_diff']:.3g} on seeded "
                              f"points; library {rec['_lib']} vs expected {rec['_exp']}", {"kind": "reduce", "job": job})
        for r in by_id.values():
            if r["k"] == "compose" and r.get("eq") == 2:
                chk.spec_drift(f"{kc.CLS[r['cls']]}.formulate(n={r['n']}, n_poles={r['np']}, phsp={r['X']}) equals skeleton o parametrisation only numerically")
            if r["k"] in ("pparam", "compose", "flow", "reduce"):
                chk.count(1)
                if r["k"] != "flow" or r["cls"] in ("RelK", "RelP"):
                    chk.nontrivial(tuple(r.get(k) for k in ("k", "cls", "form", "i", "n", "np", "flag", "L", "d", "X", "unit")))
        ex = next((r for r in by_id.values() if r["k"] == "flow" and r["cls"] == "RelP" and r["X"] == "VfPhaseSpace" and r["n"] == 2), None)
        if ex:
            chk.sample({k: v for k, v in ex.items() if k != "id"})
        ex = next((r for r in by_id.values() if r["k"] == "reduce" and r["cls"] == "RelP" and r["form"] == "Fdoc" and r["unit"] == 1), None)
        if ex:
            chk.sample({k: v for k, v in ex.items() if k != "id"})
        if not replay and (stats.get("flow_rel", 0) == 0 or stats.get("reduce", 0) == 0):
            raise Machinery(f"vacuous: {stats}")

    if hist_future is not None:
        hist_future.result()
    if not replay:
        with ProcessPoolExecutor(max_workers=1, mp_context=mp.get_context("fork")) as ex:
            aliased = ex.submit(alias_probe).result()
        if aliased:
            chk.note("finding outside the property text, signature 'formulate(parametrize=False):returns-cached-mutable-matrix': the returned "
                     "MutableDenseMatrix is the functools.cache'd object itself, a client write changes every later result: " + " | ".join(aliased))
    if ref_future is not None:
        res = ref_future.result()
        chk.add_tlc("reference_exhaustive", res)
        chk.part("reference_exhaustive", invariants=c09.REF_INVS, laws_in_AllLaws=c09.REF_LAWS, lattice_states=res.distinct)
    tpool.shutdown(wait=True)

    if tier == "thorough" and not replay:
        chk.part("binding_demonstration", **binding_demo(skel_recs, trecs))

    chk.part("lattice", records=n_skel, stats=stats, complete=complete, n3_points={k: len(v) for k, v in n3.items()},
             python_lattice_s=round(t_lattice, 1), python_terms_s=round(t_terms, 1))
    chk.cov["rule"] = (
        "skeleton: every lattice point (K_ij in {-1,0,1/2,1,2} symmetric, rho_i in {1/4,1,4,9/25}, P one of three independent complex "
        "vectors chosen by ordinal) for n_channels 1-2 of both production-vector classes, ordinal decoded and order checked by the "
        "specification (n=3 sampled for the non-relativistic vector in the thorough tier), non-trivial when K != 0; dataflow: one "
        "formulate() call per (class, n, n_poles, flag, phase-space implementation, (L, d)), non-trivial for the relativistic classes "
        "(arguments are used); histories: every sequence of <= 3 calls over the alphabet of KMatrixCalls, non-trivial when it "
        "contains two different calls; reduction: (class, form, phase-space implementation, L, d), seeded points."
    )
    chk.cov["exhaustive"] = False
    chk.cov["explanation"] = (
        "model_checking: exact laws judged by TLC on reference and implementation matrices; histories enumerated exhaustively by TLC; "
        "the Breit-Wigner reduction records carry floating-point differences computed by SymPy (tolerance 1e-9) that TLC only judges"
    )


def binding_demo(skel_recs, trecs):
    """corrupt one logged field / drop a record: the trace must be rejected"""
    import copy

    run_ix = next(i for i, r in enumerate(skel_recs) if r["k"] == "run" and r["cls"] == "RelP" and r["n"] == 2)
    end_ix = next(i for i in range(run_ix, len(skel_recs)) if skel_recs[i]["k"] == "endrun")
    base = copy.deepcopy(skel_recs[run_ix : min(end_ix, run_ix + 40)])
    base[0]["to"] = base[0]["from"] + len(base) - 1
    base.append({"k": "endrun", "from": base[0]["from"]})
    flow = copy.deepcopy(next(r for r in trecs if r["k"] == "flow" and r["cls"] == "RelP" and r["X"] != "PhaseSpaceFactor"))
    base.append(flow)

    def judge(recs):
        recs = [dict(r) for r in recs] + [{"k": "end"}]
        for i, r in enumerate(recs):
            r["id"] = i + 1
        return trace.validate("Trace_KMatrix", [kc.strip(r) for r in recs])

    tv = judge(base)
    if tv.rejects:
        raise Machinery(f"binding demonstration: the uncorrupted excerpt is rejected: {tv.rejects[:3]}")
    target = next(i for i, r in enumerate(base) if r["k"] == "skel" and kc.nontrivial_point(2, r["kx"]))
    out = {}
    for label, mut in (
        ("F_entry_numerator+1", lambda rs: rs[target]["F"][1][0].__setitem__(0, rs[target]["F"][1][0][0] + 1)),
        ("Fhat_entries_swapped", lambda rs: rs[target].__setitem__("Fhat", rs[target]["Fhat"][::-1])),
        ("logged_P_changed", lambda rs: rs[target]["P"][0].__setitem__(0, [3, 1, 0, 1])),
        ("record_dropped", lambda rs: rs.pop(target)),
        ("width_phsp_attribute_default", lambda rs: rs[-1].__setitem__("xwidth", ["PhaseSpaceFactor"])),
        ("extra_angular_momentum", lambda rs: rs[-1].__setitem__("lff", sorted(set(rs[-1]["lff"]) | {0, 1}))),
    ):
        rs = copy.deepcopy(base)
        mut(rs)
        tv = judge(rs)
        if not tv.rejects:
            raise Machinery(f"binding demonstration failed: corruption '{label}' was accepted by Trace_KMatrix (vacuous check)")
        out[label] = sorted({r[0] for r in tv.rejects})
    return out
