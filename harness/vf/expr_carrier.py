"""C14, 'also when arguments are ... non-SymPy attributes': a non-SymPy attribute may itself carry symbols (a callable
given as sympy.Lambda with a free parameter, which is what PhaseSpaceFactorProtocol admits).  For every discovered
class with a class-valued non-SymPy field an instance with such a *symbolic carrier* is built; substitutions that hit
the carried symbol are logged for Trace_Expr with the carrier projected as one more argument of the node (so that
ExprAlgebra!Subst, a homomorphism, says what the result must be), together with the observation
'substitute-then-unfold = unfold-then-substitute' evaluated numerically."""
from __future__ import annotations

import dataclasses
import inspect
import random
import warnings

import sympy as sp

from . import expr_terms as T
from .expr_cls import project_generic


def _proj(e, cls, fname):
    if not isinstance(e, cls):
        return project_generic(e)
    base = project_generic(e)
    carrier = T.node("attr:" + fname, [project_generic(getattr(e, fname))])
    at = tuple(a for a in base[3] if not a.startswith(fname + "="))
    return T.node(base[1], list(base[2]) + [carrier], at)


_SHIFT = sp.Function("shift")


def _numeric_equal(a, b, rng):
    a, b = a.replace(_SHIFT, lambda p, q: p + q), b.replace(_SHIFT, lambda p, q: p + q)
    syms = sorted(a.free_symbols | b.free_symbols, key=str)
    worst = 0.0
    for _ in range(3):
        point = {s: sp.Float(rng.uniform(1.1, 2.9)) for s in syms}
        va, vb = complex(sp.N(a.xreplace(point))), complex(sp.N(b.xreplace(point)))
        if va != va or vb != vb:
            continue
        worst = max(worst, abs(va - vb) / max(abs(va), abs(vb), 1e-30))
    return worst


def carrier_trace_records(embs, seed, start_id):
    rng = random.Random(seed)
    c, w, x, y = sp.symbols("c_attr w x y")
    recs, ctx, skipped = [], {}, []
    rid = start_id
    for emb in embs:
        cls = emb.cls
        if not dataclasses.is_dataclass(cls):
            continue
        for f in dataclasses.fields(cls):
            default = f.default
            if f.metadata.get("sympify", True) or not inspect.isclass(default) or not dataclasses.is_dataclass(default):
                continue
            n = len([g for g in dataclasses.fields(default) if g.metadata.get("sympify", True)])
            ds = sp.symbols(f"v_attr1:{n + 1}")
            try:
                with warnings.catch_warnings():
                    warnings.simplefilter("ignore")
                    carrier = sp.Lambda(ds, default(_SHIFT(ds[0], c), *ds[1:]))   # positional head: the projection keeps argument order
                    probe = emb.build([x, y][: emb.ar], tuple("a" for _ in range(emb.na)), tuple(range(emb.ar)))
                    attrs = {g.name: getattr(probe, g.name) for g in dataclasses.fields(cls) if not g.metadata.get("sympify", True)}
                    attrs[f.name] = carrier
                    obj = cls(*probe.args, **attrs)
                    unfolded = obj.doit()
                    if c not in unfolded.free_symbols:
                        skipped.append(f"{cls.__name__}.{f.name}: the carried symbol does not reach the unfolded expression")
                        continue
            except Exception as ex:  # noqa: BLE001
                skipped.append(f"{cls.__name__}.{f.name}: {type(ex).__name__}: {str(ex)[:80]}")
                continue
            tj = T.to_json(_proj(obj, cls, f.name))
            maps = [({c: sp.Rational(3, 2)}, "subs"), ({c: w}, "subs"), ({c: sp.Rational(3, 2)}, "xreplace"),
                    ({c: w, x: y}, "xreplace"), ({c: sp.Rational(3, 2)}, "subs-simultaneous")]
            for m, op in maps:
                info = {"cls": cls.__name__, "obj": f"{obj} with {f.name}={carrier}", "what": f"{op}({m})", "opname": op.split("-")[0], "carrier": f.name}
                try:
                    with warnings.catch_warnings():
                        warnings.simplefilter("ignore")
                        if op == "subs":
                            res = obj.subs(m)
                        elif op == "subs-simultaneous":
                            res = obj.subs(m, simultaneous=True)
                        else:
                            res = obj.xreplace(m)
                        first = res.doit()
                        second = unfolded.subs(m) if op != "xreplace" else unfolded.xreplace(m)
                        equal = first == second
                        d = 0.0 if equal else _numeric_equal(first, second, rng)
                except Exception as ex:  # noqa: BLE001
                    recs.append({"id": rid, "op": "error", "t": tj})
                    ctx[rid] = {**info, "exc": type(ex).__name__, "what": f"{op}({m}) raised {ex!r}"}
                    rid += 1
                    continue
                info["res"] = f"{res} with {f.name}={getattr(res, f.name, '<missing>')}"
                recs.append({"id": rid, "op": "subst", "t": tj, "m": [[T.to_json(project_generic(k)), T.to_json(project_generic(r))] for k, r in m.items()],
                             "r": T.to_json(_proj(res, cls, f.name))})
                ctx[rid] = dict(info)
                rid += 1
                recs.append({"id": rid, "op": "commute", "t": tj, "eq": int(d < 1e-9), "diff_q": int(min(d * 1e9, 2e9))})
                ctx[rid] = {**info, "what": f"{op}({m}) then doit() vs doit() then the same substitution: relative difference {d:.3g}"}
                rid += 1
    # plain functions as attribute values: two closures of one factory share module and qualified name but are different
    # attributes (equality "exactly when class, arguments and non-SymPy attributes are equal")
    for emb in embs:
        cls = emb.cls
        if not dataclasses.is_dataclass(cls):
            continue
        for f in dataclasses.fields(cls):
            default = f.default
            if f.metadata.get("sympify", True) or not inspect.isclass(default) or not dataclasses.is_dataclass(default):
                continue

            def factory(power, default=default):
                def phsp(*a):
                    return default(*a) ** power
                return phsp

            f1, f2 = factory(1), factory(2)
            try:
                with warnings.catch_warnings():
                    warnings.simplefilter("ignore")
                    probe = emb.build([x, y][: emb.ar], tuple("a" for _ in range(emb.na)), tuple(range(emb.ar)))
                    attrs = {g.name: getattr(probe, g.name) for g in dataclasses.fields(cls) if not g.metadata.get("sympify", True)}
                    o1, o1b, o2 = (cls(*probe.args, **{**attrs, f.name: fn}) for fn in (f1, f1, f2))
            except Exception as ex:  # noqa: BLE001
                skipped.append(f"{cls.__name__}.{f.name} (function value): {type(ex).__name__}: {str(ex)[:80]}")
                continue
            for a, b, what in ((o1, o1b, "the same function object"), (o1, o2, "two closures of one factory (same qualified name)")):
                recs.append({"id": rid, "op": "eq", "t": T.to_json(project_generic(a)), "u": T.to_json(project_generic(b)), "eq": int(a == b), "hash": int(hash(a) == hash(b))})
                ctx[rid] = {"cls": cls.__name__, "obj": f"{a} with {f.name}=<function>", "res": f"{b} with {f.name}=<function>: {what}", "what": what, "opname": "__eq__", "carrier": f.name,
                            "function_pair": what}
                rid += 1
    # a non-default non-SymPy attribute together with a still FOLDED SymPy argument: unfolding the whole (deep doit) must equal
    # unfolding the argument first and the outer expression afterwards - the attribute must survive whatever rebuilding doit performs
    from ampform.dynamics.phasespace import BreakupMomentumSquared

    for emb in embs:
        cls = emb.cls
        if not dataclasses.is_dataclass(cls) or cls is BreakupMomentumSquared:
            continue
        for f in dataclasses.fields(cls):
            default = f.default
            if f.metadata.get("sympify", True) or not inspect.isclass(default) or not dataclasses.is_dataclass(default):
                continue
            alts = emb.attr_values.get(f.name, [])
            if len(alts) < 2:
                continue
            try:
                with warnings.catch_warnings():
                    warnings.simplefilter("ignore")
                    probe = emb.build([x, y][: emb.ar], tuple("a" for _ in range(emb.na)), tuple(range(emb.ar)))
                    attrs = {g.name: getattr(probe, g.name) for g in dataclasses.fields(cls) if not g.metadata.get("sympify", True)}
                    attrs[f.name] = alts[1]
                    folded = BreakupMomentumSquared(x, sp.Symbol("k_a"), sp.Symbol("k_b")) + 4   # a folded expression as first argument
                    args = [folded] + list(probe.args[1:])
                    obj = cls(*args, **attrs)
                    deep = obj.doit()
                    staged = cls(*[a.doit() for a in args], **attrs).doit()
                    d = 0.0 if deep == staged else _numeric_equal(deep, staged, rng)
            except Exception as ex:  # noqa: BLE001
                skipped.append(f"{cls.__name__}.{f.name} (folded argument): {type(ex).__name__}: {str(ex)[:80]}")
                continue
            recs.append({"id": rid, "op": "commute", "t": T.to_json(_proj(obj, cls, f.name)), "eq": int(d < 1e-9), "diff_q": int(min(d * 1e9, 2e9))})
            ctx[rid] = {"cls": cls.__name__, "obj": f"{obj} with {f.name}={getattr(alts[1], '__name__', alts[1])}", "what": f"doit() vs doit() after unfolding the arguments first: relative difference {d:.3g}",
                        "opname": "doit", "carrier": f.name, "folded_argument": 1}
            rid += 1
    # keyword construction in another order than the declaration: the same instance as positional construction
    for emb in embs:
        cls = emb.cls
        if not dataclasses.is_dataclass(cls):
            continue
        flds = dataclasses.fields(cls)
        sf = [g.name for g in flds if g.metadata.get("sympify", True)]
        if len(sf) < 2:
            continue
        syms = sp.symbols(f"k1:{len(sf) + 1}")
        vals = dict(zip(sf, syms))
        try:
            with warnings.catch_warnings():
                warnings.simplefilter("ignore")
                probe = emb.build([x, y][: emb.ar], tuple("a" for _ in range(emb.na)), tuple(range(emb.ar)))
                pos = cls(*[vals[g.name] if g.name in vals else getattr(probe, g.name) for g in flds])   # every field, declaration order
                kw = cls(**{n_: vals[n_] for n_ in reversed(sf)})
                mixed = cls(vals[sf[0]], **{n_: vals[n_] for n_ in reversed(sf[1:])})
        except Exception as ex:  # noqa: BLE001
            skipped.append(f"{cls.__name__} (keyword construction): {type(ex).__name__}: {str(ex)[:80]}")
            continue
        for other, what in ((kw, "all arguments by keyword, reversed order"), (mixed, "first argument positional, the others by keyword in reversed order")):
            recs.append({"id": rid, "op": "same", "t": T.to_json(project_generic(pos)), "u": T.to_json(project_generic(other)), "eq": int(pos == other), "hash": int(hash(pos) == hash(other))})
            ctx[rid] = {"cls": cls.__name__, "obj": str(pos), "res": f"{other} ({what})", "what": what, "opname": "__new__", "carrier": "keyword", "keyword_pair": what}
            rid += 1
    return recs, ctx, skipped


def falsy_attribute_records(embs, start_id, ops=("pickle", "subst")):
    """Non-SymPy string attributes with the value "" (a legitimate name that is falsy in Python): has to survive pickle, subs and
    xreplace like any other value (a truthiness test where `is not None` is meant loses it)."""
    import pickle

    x, w = sp.symbols("x w")
    recs, ctx, skipped = [], {}, []
    rid = start_id
    for emb in embs:
        cls = emb.cls
        for fname in emb.attr_fields:
            cands = emb.attr_values.get(fname, [])
            if not any(isinstance(v, str) or v is None for v in cands):
                continue
            try:
                with warnings.catch_warnings():
                    warnings.simplefilter("ignore")
                    probe = emb.build([x, sp.Symbol("y")][: emb.ar], tuple("a" for _ in range(emb.na)), tuple(range(emb.ar)))
                    if dataclasses.is_dataclass(cls):
                        attrs = {g.name: getattr(probe, g.name) for g in dataclasses.fields(cls) if not g.metadata.get("sympify", True)}
                        attrs[fname] = ""
                        obj = cls(**{g.name: getattr(probe, g.name) for g in dataclasses.fields(cls) if g.metadata.get("sympify", True)}, **attrs)
                    else:
                        obj = cls(*probe.args, name="")
                    if getattr(obj, fname, None) != "":
                        continue
            except Exception as ex:  # noqa: BLE001
                skipped.append(f"{cls.__name__}.{fname} = '': {type(ex).__name__}: {str(ex)[:80]}")
                continue
            tj = T.to_json(project_generic(obj))
            todo = []
            if "pickle" in ops:
                todo.append(("pickle", "pickle", lambda o: pickle.loads(pickle.dumps(o)), None))
            if "subst" in ops:
                todo.append(("subst", "xreplace", lambda o: o.xreplace({x: w}), [(x, w)]))
                todo.append(("subst", "subs", lambda o: o.subs(x, w), [(x, w)]))
            for op, opname, fn, m in todo:
                info = {"cls": cls.__name__, "obj": f"{obj} with {fname}=''", "what": opname, "opname": opname, "carrier": fname, "falsy_attribute": 1}
                try:
                    with warnings.catch_warnings():
                        warnings.simplefilter("ignore")
                        res = fn(obj)
                except Exception as ex:  # noqa: BLE001
                    recs.append({"id": rid, "op": "error", "t": tj})
                    ctx[rid] = {**info, "exc": type(ex).__name__, "what": f"{opname} raised {ex!r}"}
                    rid += 1
                    continue
                rec = {"id": rid, "op": op, "t": tj, "r": T.to_json(project_generic(res))}
                if m:
                    rec["m"] = [[T.to_json(project_generic(k)), T.to_json(project_generic(r_))] for k, r_ in m]
                recs.append(rec)
                ctx[rid] = {**info, "res": f"{res} with {fname}={getattr(res, fname, '<missing>')!r}"}
                rid += 1
    return recs, ctx, skipped


def default_argument_records(embs, start_id, ops=("pickle", "subst")):
    """Instances built with their optional constructor arguments OMITTED (the class universe passes every argument explicitly):
    the default of an argument may be stored in another form than an explicit value (None, a token) and has to survive
    the reconstruction that pickle, subs and xreplace perform."""
    import pickle

    x, w = sp.symbols("x w")
    recs, ctx, skipped = [], {}, []
    rid = start_id
    for emb in embs:
        cls = emb.cls
        try:
            with warnings.catch_warnings():
                warnings.simplefilter("ignore")
                probe = emb.build([x, sp.Symbol("y")][: emb.ar], tuple("a" for _ in range(emb.na)), tuple(range(emb.ar)))
                if dataclasses.is_dataclass(cls):
                    flds = dataclasses.fields(cls)
                    req = [g for g in flds if g.default is dataclasses.MISSING and g.default_factory is dataclasses.MISSING]
                    if len(req) == len(flds):
                        continue
                    obj = cls(*[getattr(probe, g.name) for g in req])
                else:
                    sig = inspect.signature(cls.__new__)
                    params = [p_ for p_ in list(sig.parameters.values())[1:] if p_.kind in (p_.POSITIONAL_ONLY, p_.POSITIONAL_OR_KEYWORD)]
                    nreq = len([p_ for p_ in params if p_.default is p_.empty])
                    if nreq == len(params) or nreq == 0 or nreq > len(probe.args):
                        continue
                    obj = cls(*probe.args[:nreq])
                if not isinstance(obj, cls) or obj == probe:
                    continue
        except Exception as ex:  # noqa: BLE001
            skipped.append(f"{cls.__name__} (defaults omitted): {type(ex).__name__}: {str(ex)[:80]}")
            continue
        tj = T.to_json(project_generic(obj))
        todo = []
        if "pickle" in ops:
            todo.append(("pickle", "pickle", lambda o: pickle.loads(pickle.dumps(o)), None))
        if "subst" in ops:
            todo.append(("subst", "xreplace", lambda o: o.xreplace({x: w}), [(x, w)]))
            todo.append(("subst", "subs", lambda o: o.subs(x, w), [(x, w)]))
        for op, opname, fn, m in todo:
            info = {"cls": cls.__name__, "obj": f"{obj} (optional constructor arguments omitted)", "what": f"{opname}", "opname": opname, "carrier": "defaults", "defaults_omitted": 1}
            try:
                with warnings.catch_warnings():
                    warnings.simplefilter("ignore")
                    res = fn(obj)
            except Exception as ex:  # noqa: BLE001
                recs.append({"id": rid, "op": "error", "t": tj})
                ctx[rid] = {**info, "exc": type(ex).__name__, "what": f"{opname} raised {ex!r}"}
                rid += 1
                continue
            rec = {"id": rid, "op": op, "t": tj, "r": T.to_json(project_generic(res))}
            if m:
                rec["m"] = [[T.to_json(project_generic(k)), T.to_json(project_generic(r_))] for k, r_ in m]
            recs.append(rec)
            ctx[rid] = {**info, "res": str(res)}
            rid += 1
    return recs, ctx, skipped
