import sys, os
sys.path.insert(0, "/tmp/wt_c08/src"); sys.path.insert(1, "/verif/harness")
os.environ["VERIF_REPO_SRC"] = "/tmp/wt_c08/src"
from vf import core, trace
from vf.props import c08
orig = c08.validate
def v2(recs, parts):
    tvs = orig(recs, parts)
    for tv in tvs:
        st = [p for p in tv.res.prints if p[0]=="STAT" and p[1]=="start"]
        print(tv.n, st, len(tv.rejects))
        if len(st) > 1:
            open("/verif/.scratch_c08/raw.txt","w").write(tv.res.raw)
    return tvs
c08.validate = v2
chk = core.Check("C08", "quick", 0, "model_checking")
try:
    c08.run(chk)
except Exception as e:
    print("EXC", str(e)[:300])
