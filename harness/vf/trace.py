"""Trace validation: records logged from the implementation are written as ndjson and
consumed by a TLA+ trace specification (spec/Trace*.tla / law modules).

Conventions shared by all trace specifications:
  * `Log == ndJsonDeserialize(IOEnv.TRACE_FILE)`; one variable `l` (plus the module's state);
  * every clause is written  IF Clause THEN TRUE ELSE PrintT(<<"REJECT", clause, id, info>>)
    — PrintT is TRUE, so the step still consumes the record and *every* rejection of the
    trace is reported with the name of the failing clause (verdicts are total);
  * `<<"STAT", name, n>>` prints carry vacuity counters (how often an antecedent held);
  * acceptance of the trace shape itself: POSTCONDITION  TLCGet("stats").diameter = Len(Log)+1.
"""
from __future__ import annotations

import json
import os
import tempfile
from dataclasses import dataclass, field
from pathlib import Path

from . import tlc
from .core import Machinery

STD_CFG = "SPECIFICATION TraceSpec\nPOSTCONDITION TraceAccepted\nCHECK_DEADLOCK FALSE\n"


@dataclass
class TraceVerdict:
    res: tlc.TLCResult
    rejects: list[tuple] = field(default_factory=list)  # (clause, id, info...)
    stats: dict = field(default_factory=dict)
    n: int = 0


def _check_ints(x, path="$"):
    if isinstance(x, bool):
        return
    if isinstance(x, int):
        if abs(x) >= 2**31:
            raise Machinery(f"integer {x} at {path} does not fit TLC's 32-bit integers")
    elif isinstance(x, float):
        raise Machinery(f"float {x} at {path}: traces must carry integers / rationals only")
    elif x is None:
        raise Machinery(f"null at {path}: use a sentinel")
    elif isinstance(x, dict):
        for k, v in x.items():
            _check_ints(v, f"{path}.{k}")
    elif isinstance(x, (list, tuple)):
        for i, v in enumerate(x):
            _check_ints(v, f"{path}[{i}]")


def validate(
    module: str,
    records: list[dict],
    *,
    cfg: str = STD_CFG,
    timeout: int = 1800,
    env: dict | None = None,
    heap: str = "6g",
) -> TraceVerdict:
    if not records:
        raise Machinery(f"empty trace for {module}")
    for i, r in enumerate(records):
        _check_ints(r, f"rec[{i}]")
    fd, path = tempfile.mkstemp(prefix="vf_trace_", suffix=".ndjson")
    try:
        with os.fdopen(fd, "w") as f:
            for r in records:
                f.write(json.dumps(r, separators=(",", ":")) + "\n")
        e = {"TRACE_FILE": path}
        if env:
            e.update(env)
        res = tlc.run(module, cfg, workers=1, env=e, timeout=timeout, heap=heap)
    finally:
        Path(path).unlink(missing_ok=True)
    tv = TraceVerdict(res=res, n=len(records))
    for p in res.prints:
        if isinstance(p, tuple) and p and p[0] == "REJECT":
            tv.rejects.append(tuple(p[1:]))
        elif isinstance(p, tuple) and len(p) >= 3 and p[0] == "STAT":
            tv.stats[p[1]] = tv.stats.get(p[1], 0) + (p[2] if isinstance(p[2], int) else 1)
    if not res.ok and not tv.rejects:
        raise Machinery(
            f"trace specification {module} did not consume the trace and named no clause "
            f"({res.violated}):\n{res.raw[-3000:]}"
        )
    return tv
