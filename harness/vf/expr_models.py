"""C15 — whole models: pickle round trip of formulated HelicityModels (same process and a fresh
interpreter with another hash seed).  The qrules reactions are inputs that do not depend on
/repo; they are pickled under /verif/.cache/c15 and regenerated when missing.  Nothing
derived from ampform is cached."""
from __future__ import annotations

import base64
import hashlib
import json
import pickle
import warnings
from pathlib import Path

CACHE = Path(__file__).resolve().parents[2] / ".cache" / "c15"

ATTRS = ["intensity", "amplitudes", "parameter_defaults", "kinematic_variables", "components", "reaction_info"]

REACTIONS = {
    "jpsi_gpp_f0_helicity": dict(initial_state=[("J/psi(1S)", [-1, 1])], final_state=["gamma", "pi0", "pi0"],
                                 allowed_intermediate_particles=["f(0)(980)"], allowed_interaction_types="strong", formalism="helicity"),
    "jpsi_gpp_f0_canonical": dict(initial_state=[("J/psi(1S)", [-1, 1])], final_state=["gamma", "pi0", "pi0"],
                                  allowed_intermediate_particles=["f(0)(980)"], allowed_interaction_types="strong",
                                  formalism="canonical-helicity"),
    "jpsi_ksp_sigma_helicity": dict(initial_state=("J/psi(1S)", [-1, +1]), final_state=["K0", "Sigma+", "p~"],
                                    allowed_intermediate_particles=["Sigma(1660)"], allowed_interaction_types=["strong"], formalism="helicity"),
}

# model specifications: (name, reaction, configuration)
MODELS = [
    ("helicity_plain", "jpsi_gpp_f0_helicity", {}),
    ("canonical_bw_ff", "jpsi_gpp_f0_canonical", {"dynamics": "bw_ff"}),
    ("helicity_bw_ff_stable", "jpsi_gpp_f0_helicity", {"dynamics": "bw_ff", "stable": [1, 2], "scalar_initial_state_mass": True}),
    ("dpd_aligned", "jpsi_ksp_sigma_helicity", {"align": "dpd", "relabel": True}),
]


def reaction(name):
    import os

    os.environ.setdefault("TQDM_DISABLE", "1")
    import qrules

    CACHE.mkdir(parents=True, exist_ok=True)
    f = CACHE / f"{name}.pkl"
    if f.exists():
        try:
            return pickle.loads(f.read_bytes())
        except Exception:  # noqa: BLE001
            f.unlink()
    with warnings.catch_warnings():
        warnings.simplefilter("ignore")
        r = qrules.generate_transitions(**REACTIONS[name])
    tmp = f.with_suffix(".tmp")
    tmp.write_bytes(pickle.dumps(r))
    tmp.replace(f)
    return r


def build(spec):
    import ampform
    from ampform.dynamics.builder import create_relativistic_breit_wigner_with_ff

    name, rname, cfg = spec
    r = reaction(rname)
    if cfg.get("relabel"):
        from ampform.helicity.align.dpd import relabel_edge_ids

        r = relabel_edge_ids(r)
    b = ampform.get_builder(r)
    if cfg.get("align") == "dpd":
        from ampform.helicity.align.dpd import DalitzPlotDecomposition

        b.config.spin_alignment = DalitzPlotDecomposition(reference_subsystem=1)
    if cfg.get("stable"):
        b.config.stable_final_state_ids = set(cfg["stable"])
    if cfg.get("scalar_initial_state_mass"):
        b.config.scalar_initial_state_mass = True
    if cfg.get("dynamics") == "bw_ff":
        for p in r.get_intermediate_particles().names:
            b.dynamics.assign(p, create_relativistic_breit_wigner_with_ff)
    with warnings.catch_warnings():
        warnings.simplefilter("ignore")
        return b.formulate()


def digest(model):
    """order-sensitive description of the six attributes (srepr of every key and value, in order)"""
    import sympy as sp

    d = {}
    d["intensity"] = [sp.srepr(model.intensity)]
    d["amplitudes"] = [[sp.srepr(k), sp.srepr(v)] for k, v in model.amplitudes.items()]
    d["parameter_defaults"] = [[sp.srepr(k), repr(v), type(v).__name__] for k, v in model.parameter_defaults.items()]
    d["kinematic_variables"] = [[sp.srepr(k), sp.srepr(v)] for k, v in model.kinematic_variables.items()]
    d["components"] = [[k, sp.srepr(v)] for k, v in model.components.items()]
    ri = model.reaction_info
    d["reaction_info"] = [repr(ri.formalism), str(len(ri.transitions)), hashlib.sha1(repr(ri.transitions).encode()).hexdigest()]
    d["types"] = {a: type(getattr(model, a)).__name__ for a in ATTRS}
    return d


def compare_models(a, b):
    """-> list of (attribute, what) differences between two HelicityModel objects in one process"""
    import sympy as sp

    diffs = []
    for attr in ATTRS:
        x, y = getattr(a, attr), getattr(b, attr)
        if type(x) is not type(y):
            diffs.append((attr, f"type {type(x).__name__} -> {type(y).__name__}"))
            continue
        if attr == "intensity":
            if not (x == y and hash(x) == hash(y) and sp.srepr(x) == sp.srepr(y)):
                diffs.append((attr, "expression differs"))
        elif attr == "reaction_info":
            if x != y:
                diffs.append((attr, "not equal"))
        else:
            kx, ky = list(x), list(y)
            if kx != ky:
                diffs.append((attr, "key order differs" if sorted(map(str, kx)) == sorted(map(str, ky)) else "keys differ"))
                continue
            for k in kx:
                vx, vy = x[k], y[k]
                if isinstance(vx, sp.Basic):
                    if not (vx == vy and sp.srepr(vx) == sp.srepr(vy)):
                        diffs.append((attr, f"value of {k} differs"))
                        break
                elif not (type(vx) is type(vy) and vx == vy):
                    diffs.append((attr, f"value of {k}: {vx!r} ({type(vx).__name__}) -> {vy!r} ({type(vy).__name__})"))
                    break
            if attr == "parameter_defaults":
                # the mapping's own views: by name, by position
                try:
                    for n, k in enumerate(kx):
                        if y[n] != x[n] or (hasattr(k, "name") and y[k.name] != x[k.name]):
                            diffs.append((attr, f"lookup by index/name differs at {k}"))
                            break
                except Exception as e:  # noqa: BLE001
                    diffs.append((attr, f"lookup raises {e!r}"))
    if a != b and not diffs:
        diffs.append(("model", "model != loaded model although all attributes compare equal"))
    return diffs


def child_main(job):
    """fresh interpreter: load the parent's pickles, report digests, pickle them again for the way back"""
    out = {}
    for name, blob in job["blobs"].items():
        r = {}
        try:
            m = pickle.loads(base64.b64decode(blob))
            r["digest"] = digest(m)
            m2 = pickle.loads(pickle.dumps(m))
            r["self_roundtrip_diffs"] = compare_models(m, m2)
            r["back"] = base64.b64encode(pickle.dumps(m)).decode()
            r["ok"] = True
        except Exception as e:  # noqa: BLE001
            r = {"ok": False, "err": repr(e)[:800]}
        out[name] = r
    return {"models": out}
