-------------------------- MODULE Trace_KMatrixCalls --------------------------
(***************************************************************************)
(* Validates executed call histories against KMatrixCalls (Dev = {}).      *)
(* Records:                                                                *)
(*   fresh  {call, dig}           digest of call k made alone in a fresh   *)
(*                                process                                  *)
(*   hist   {sid, pos, call, dig} the pos-th call of history sid, made in  *)
(*                                one process after the pos-1 earlier ones *)
(* dig is the index of the result's digest (sympy.srepr of the matrix plus *)
(* the non-SymPy attributes of every EnergyDependentWidth) in the driver's *)
(* digest table: equal index <=> equal result.                             *)
(* Laws: every history is a behaviour of KMatrixCalls; the result of every *)
(* call equals the fresh result of that call (the model's Pure, evaluated  *)
(* on the implementation's digests); and two fresh results coincide        *)
(* exactly when the model says the calls have the same result (arguments   *)
(* that must matter do matter, arguments that are ignored are ignored).    *)
(***************************************************************************)
EXTENDS KMatrixCalls, Json, IOUtils

Log == ndJsonDeserialize(IOEnv.TRACE_FILE)

VARIABLES l, fresh, nh
tvars == <<vars, l, fresh, nh>>
Rec == Log[l]
Clause(name, ok, info) == IF ok THEN TRUE ELSE PrintT(<<"REJECT", name, Rec.id, info>>)

TFresh ==
  /\ Rec.k = "fresh"
  /\ Clause("call-index", Rec.call \in 1..Len(Calls), Rec.call)
  /\ Clause("fresh-results-separate-exactly-the-different-calls",
            \A j \in 1..Len(Calls) : fresh[j] # -1 => (SameResult(j, Rec.call) <=> fresh[j] = Rec.dig),
            <<Rec.call, Rec.dig, fresh>>)
  /\ fresh' = [fresh EXCEPT ![Rec.call] = Rec.dig]
  /\ UNCHANGED <<vars, nh>>

\* a history record: restart the model for pos = 1, then take the model's action
THist ==
  /\ Rec.k = "hist"
  /\ LET h0 == IF Rec.pos = 1 THEN <<>> ELSE hist
         c0 == IF Rec.pos = 1 THEN [key \in Keys |-> Absent] ELSE cache
         c == Calls[Rec.call]
         key == KeyOf(c)
         entry == IF c0[key] = Absent THEN [skel |-> Skel(c), edit |-> NoEdit] ELSE c0[key]
     IN /\ Clause("behaviour", Rec.pos = Len(h0) + 1 /\ Rec.pos <= MaxLen /\ Rec.call \in 1..Len(Calls),
                  <<Rec.sid, Rec.pos, Rec.call>>)
        /\ hist' = Append(h0, Rec.call)
        /\ cache' = [c0 EXCEPT ![key] = entry]
        /\ out' = [skel |-> entry.skel, par |-> Par(c)]
        \* the model's invariant in the state just reached
        /\ Clause("model-pure", out' = Fresh(c), <<Rec.sid, Rec.pos>>)
        \* ... and the same statement about the implementation
        /\ Clause("result-depends-on-arguments-only", fresh[Rec.call] # -1 /\ Rec.dig = fresh[Rec.call],
                  <<Rec.sid, Rec.pos, hist', Rec.dig, fresh[Rec.call]>>)
  /\ nh' = nh + 1
  /\ UNCHANGED fresh

TEnd ==
  /\ Rec.k = "end"
  /\ PrintT(<<"STAT", "hist", nh>>)
  /\ PrintT(<<"STAT", "fresh", Cardinality({j \in 1..Len(Calls) : fresh[j] # -1})>>)
  /\ UNCHANGED <<vars, fresh, nh>>

TraceInit == Init /\ l = 1 /\ fresh = [j \in 1..Len(Calls) |-> -1] /\ nh = 0
TraceNext == l <= Len(Log) /\ (TFresh \/ THist \/ TEnd) /\ l' = l + 1
TraceSpec == TraceInit /\ [][TraceNext]_tvars
TraceAccepted == TLCGet("stats").diameter = Len(Log) + 1
=============================================================================
