---------------------------- MODULE Trace_Observe ----------------------------
(* C04 / C05: laws over observations computed by the implementation itself (TLC cannot
   evaluate a Wigner-D).  The specification contributes the applicability logic
   (Alignment!RotationClaimed / AlignmentNeutralClaimed, computed from the logged abstract
   outer states), the exact spin-range oracle, and a uniform verdict.

   kinds of record
     "range"   create_spin_range(s2/2, no_zero) = vals                     (C05, exact)
     "pools"   summation pools of an aligned model with the spin of the state they belong to (C05, exact)
     "rot"     intensity before/after a global rotation: reldiff_q = max relative difference * 10^9   (C04)
     "equal"   aligned vs unaligned intensity on the same events: reldiff_q                           (C05)
     "built"   formulate of an aligned model succeeded (ok = 1) or raised (ok = 0)                     (C05)  *)
EXTENDS Alignment, Json, IOUtils

Log == ndJsonDeserialize(IOEnv.TRACE_FILE)
VARIABLE l
Rec == Log[l]
Clause(name, ok, info) == IF ok THEN TRUE ELSE PrintT(<<"REJECT", name, Rec.id, info>>)
Stat(name) == PrintT(<<"STAT", name, 1>>)
ToSetOf(seq) == { seq[i] : i \in DOMAIN seq }
Tol == 100   \* 1e-7 relative, in units of 1e-9

Step ==
  /\ l <= Len(Log)
  /\ CASE Rec.kind = "range" ->
            /\ Clause("spin-range-is-minus-s-to-s-in-unit-steps",
                      Rec.raised = 0 /\ ToSetOf(Rec.vals) = SpinRange(Rec.s2, Rec.nozero = 1) /\ Len(Rec.vals) = Cardinality(SpinRange(Rec.s2, Rec.nozero = 1)),
                      <<Rec.s2, Rec.nozero, Rec.raised, Rec.vals>>)
            /\ Clause("spin-range-ascending", \A i \in 1..(Len(Rec.vals) - 1) : Rec.vals[i] < Rec.vals[i + 1], Rec.vals)
       [] Rec.kind = "pools" ->
            \A i \in DOMAIN Rec.pools :
               LET p == Rec.pools[i] IN
               /\ Stat("pools")
               /\ IF p.massless = -1
                  \* a rotation factor D^j_{m m'}: j is the spin of the state whose projections m, m' belong to
                  THEN Clause("rotation-carries-the-spin-of-its-state", p.vals = <<p.spin2>>, <<p.index, p.spin2, p.vals>>)
                  ELSE Clause("summation-runs-over-minus-s-to-s",
                         Complete(Rec.outer) => ToSetOf(p.vals) = SpinRange(p.spin2, p.massless = 1) /\ Len(p.vals) = Cardinality(SpinRange(p.spin2, p.massless = 1)),
                         <<p.index, p.spin2, p.massless, p.vals>>)
       [] Rec.kind = "built" ->
            Clause("aligned-model-can-be-formulated", Rec.ntop = 1 => Rec.ok = 1, <<Rec.alignment, Rec.error>>)
       [] Rec.kind = "rot" ->
            IF RotationClaimed(Rec.outer, Rec.ntop, Rec.aligned = 1)
            THEN Stat("rot-claimed") /\ Clause("intensity-invariant-under-global-rotation", Rec.nan = 0 /\ Rec.reldiff_q <= Tol, <<Rec.alignment, Rec.ntop, Rec.reldiff_q, Rec.nan>>)
            ELSE Stat("rot-not-claimed")
       [] Rec.kind = "equal" ->
            IF AlignmentNeutralClaimed(Rec.outer, Rec.ntop)
            THEN Stat("equal-claimed") /\ Clause("aligned-intensity-equals-unaligned", Rec.nan = 0 /\ Rec.reldiff_q <= Tol, <<Rec.alignment, Rec.reldiff_q, Rec.nan>>)
            ELSE Stat("equal-not-claimed")
       [] Rec.kind = "dpdformula" ->
            \* the DPD-aligned amplitude is the rotation of the per-topology amplitudes by the angles zeta^i_{k(ref)}
            \* (k the spectator of the topology):  A[l] = sum_k sum_l' A^k[l'] d^{j0}_{l0 l0'}(zeta^0) prod_i d^{ji}_{li' li}(zeta^i).
            \* Judged for reactions with several topologies - there C04 requires that the selected alignment makes the
            \* intensity rotation invariant - and only while the intensity of that
            \* (reaction, alignment) pair is observed NOT to be invariant (Rec.variant = 1): an implementation that reaches
            \* invariance by another formula is not contradicted by this clause.
            IF Rec.ntop > 1 /\ Rec.variant = 1
            THEN Stat("dpdformula-judged") /\ Clause("aligned-amplitude-is-the-dpd-rotation-of-the-topology-amplitudes", Rec.nan = 0 /\ Rec.reldiff_q <= Tol, <<Rec.alignment, Rec.reldiff_q, Rec.nan>>)
            ELSE Stat("dpdformula-not-judged")
       [] Rec.kind = "wignerangles" ->
            \* axis-angle alignment: R_z(alpha) R_y(beta) R_z(gamma) = (L_n ... L_1) L_direct^-1 (pure boosts along the decay chain
            \* against the direct boost): the Wigner angles are the Euler angles of the Wigner rotation.  Judged like "dpdformula".
            IF Rec.ntop > 1 /\ Rec.variant = 1
            THEN Stat("wignerangles-judged") /\ Clause("wigner-angles-are-the-euler-angles-of-the-wigner-rotation", Rec.diff_q <= Tol, <<Rec.suffix, Rec.diff_q>>)
            ELSE Stat("wignerangles-not-judged")
       [] Rec.kind = "links" ->
            \* the aligned amplitude is a chain of rotation matrices contracted with the amplitude symbol: every summation
            \* index occurs in exactly two factors of every term (an index name used for two links makes the chain a trace)
            Stat("links") /\ \A i \in DOMAIN Rec.links :
                 \* (a spinless state has no rotation factor: its single-valued index occurs in the amplitude symbol only)
                 Clause("summation-index-links-exactly-two-factors",
                        \/ Rec.links[i].min_uses = 2 /\ Rec.links[i].max_uses = 2
                        \/ Rec.links[i].n_values = 1 /\ Rec.links[i].min_uses \in {1, 2} /\ Rec.links[i].max_uses \in {1, 2}, Rec.links[i])
                 \* an index is a spin projection - a row or column label of a rotation matrix - and never (part of) one of its angles
                 /\ Clause("summation-index-is-never-an-angle", Rec.links[i].as_angle = 0, Rec.links[i])
       [] Rec.kind = "relabel" ->
            \* relabel_edge_ids (every id shifted by one) commutes with formulate(): same intensity on the same events
            Stat("relabel") /\ Clause("relabelled-reaction-has-the-same-intensity", Rec.nan = 0 /\ Rec.reldiff_q <= Tol, <<Rec.reldiff_q, Rec.nan>>)
       [] Rec.kind = "cgexp" ->
            \* C03, second reading: couplings obtained from random canonical LS coefficients by the Clebsch-Gordan
            \* expansion agree (with the model's sign) for all chains that share a coefficient
            Stat("cgexp") /\ Clause("shared-coefficient-consistent-with-clebsch-gordan-expansion", Rec.diff_q <= Tol, <<Rec.diff_q, Rec.nonzero>>)
       [] OTHER -> Clause("unknown-record-kind", FALSE, Rec.kind)
  /\ l' = l + 1
TraceInit == l = 1
TraceSpec == TraceInit /\ [][Step]_l
TraceAccepted == TLCGet("stats").diameter = Len(Log) + 1
=============================================================================
