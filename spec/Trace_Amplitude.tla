-------------------------- MODULE Trace_Amplitude --------------------------
(* C01 / C02 / C03, code -> spec.  One record per formulated model:
     trs      abstract transitions of the reaction (vf/ampl.py: abstract_reaction)
     chains   per transition (same order): projection of its chain amplitude (the named
              component of the model): sign, Wigner-D list, CG list, coefficient symbols
     amps     per amplitude symbol: topology identifier, outer helicities, projected terms
     closure  symbol sets of the model (C01)
   The specification recomputes every expected structure from `trs` alone (Amplitude.tla). *)
EXTENDS Amplitude, Json, IOUtils

Log == ndJsonDeserialize(IOEnv.TRACE_FILE)
VARIABLE l
Rec == Log[l]
Clause(name, ok, info) == IF ok THEN TRUE ELSE PrintT(<<"REJECT", name, Rec.id, info>>)
Drift(name, ok, info) == IF ok THEN TRUE ELSE PrintT(<<"DRIFT", name, Rec.id, info>>)
Stat(name, n) == PrintT(<<"STAT", name, n>>)

Canonical == Rec.canonical = 1
ObsD(term) == SeqBag([ i \in DOMAIN term.D |-> <<term.D[i][1], term.D[i][2], term.D[i][3], SeqOfSets(term.D[i][4]), term.D[i][5], term.D[i][6]>> ])
ObsCG(term) == SeqBag(term.CG)
ObsTerm(term) == [D |-> ObsD(term), CG |-> IF Canonical THEN ObsCG(term) ELSE <<>>]
ObsKey(a) == <<SetOfSets(a.top), a.hel2>>
ObsTermBag(a) == LET ts == { ObsTerm(a.terms[i]) : i \in DOMAIN a.terms } IN
  [ t \in ts |-> Cardinality({ i \in DOMAIN a.terms : ObsTerm(a.terms[i]) = t }) ]

BagAdd(f, g) == [ x \in DOMAIN f \cup DOMAIN g |-> (IF x \in DOMAIN f THEN f[x] ELSE 0) + (IF x \in DOMAIN g THEN g[x] ELSE 0) ]
RECURSIVE BagSumIdx(_)
BagSumIdx(ix) == IF ix = {} THEN << >> ELSE LET i == CHOOSE x \in ix : TRUE IN BagAdd(ObsTermBag(Rec.amps[i]), BagSumIdx(ix \ {i}))

\* ---- C02: the helicity formula -----------------------------------------------------------
ChainClauses ==
  \A k \in DOMAIN Rec.trs :
     LET tr == Rec.trs[k]  c == Rec.chains[k] IN
     IF c.found = 0 THEN Drift("chain-component-missing", FALSE, k)
     \* the named component holds the chain of the transition or, with identical final-state
     \* particles, of one of its symmetrisation variants (they share the component name)
     ELSE /\ Clause("chain-wignerD", \E v \in PermVariants(tr) : ObsD(c) = ChainD(v), <<k, ObsD(c), ChainD(tr)>>)
          /\ Clause("chain-clebsch-gordan", Canonical => \E v \in PermVariants(tr) : ObsD(c) = ChainD(v) /\ ObsCG(c) = ChainCG(v), <<k, ObsCG(c), ChainCG(tr)>>)
          /\ Clause("chain-no-CG-in-helicity-basis", (~Canonical) => Len(c.CG) = 0, k)
          /\ Clause("chain-sign-unit", c.sign_den = 1 /\ c.sign_num \in {1, -1}, <<k, c.sign_num, c.sign_den>>)
AmpClauses ==
  \* amplitudes with chains are exactly those of the transitions; the other combinations the
  \* intensity sums over are defined as zero
  /\ Clause("amplitude-keys", { ObsKey(Rec.amps[i]) : i \in { j \in DOMAIN Rec.amps : Rec.amps[j].zero = 0 } } = ExpectedKeys(Rec.trs),
            <<{ ObsKey(Rec.amps[i]) : i \in DOMAIN Rec.amps }, ExpectedKeys(Rec.trs)>>)
  /\ Clause("zero-amplitudes-only-where-no-transition-exists",
            { ObsKey(Rec.amps[i]) : i \in { j \in DOMAIN Rec.amps : Rec.amps[j].zero = 1 } } \cap ExpectedKeys(Rec.trs) = {}, "")
  /\ \A i \in { j \in DOMAIN Rec.amps : Rec.amps[j].zero = 0 } :
        LET a == Rec.amps[i] IN
        Clause("amplitude-is-coherent-sum-of-its-chains",
               ObsTermBag(a) = ExpectedTermBag(Rec.trs, ObsKey(a), Canonical),
               <<ObsKey(a), ObsTermBag(a), ExpectedTermBag(Rec.trs, ObsKey(a), Canonical)>>)
  \* the named chain components A_{...} of the transitions of one amplitude add up to that amplitude, parity sign included
  \* (observed equality of the expressions, logged by the driver; -1 = not judged: identical final-state particles)
  /\ \A i \in DOMAIN Rec.amps :
        Clause("named-chain-components-sum-to-their-amplitude", Rec.amps[i].comp_sum # 0, ObsKey(Rec.amps[i]))
  \* whatever symbol they are stored under: the chains of one coherence class (keys that differ by exchanging the
  \* projections of identical particles) are all there, each once - no symmetrisation term missing or doubled
  /\ \A i \in { j \in DOMAIN Rec.amps : Rec.amps[j].zero = 0 } :
        LET k == ObsKey(Rec.amps[i])
            members == { j \in DOMAIN Rec.amps : Rec.amps[j].zero = 0 /\ SameClass(Rec.trs, k, ObsKey(Rec.amps[j])) } IN
        Clause("symmetrised-chains-complete-per-coherence-class",
               BagSumIdx(members) = ClassTermBag(Rec.trs, k, Canonical), <<k, Cardinality(members)>>)
  \* each named intensity component is |coherent sum of all chains with those outer projections, over all topologies|^2
  /\ \A i \in DOMAIN Rec.icomps :
        LET c == Rec.icomps[i]
            keys == { k \in ExpectedKeys(Rec.trs) : k[2] = c.hel2 }
            chains == UNION { ExpectedChains(Rec.trs, k) : k \in keys }
            ts == { Term(x[2], Canonical) : x \in chains }
            expected == [ t \in ts |-> Cardinality({ x \in chains : Term(x[2], Canonical) = t }) ]
        \* (a component that sympy has rewritten into another shape is judged numerically by the driver: c.numeric_ok)
        IN /\ Clause("intensity-component-is-partial-sum",
                     IF c.shape_ok = 1 THEN ObsTermBag(c) = expected ELSE c.numeric_ok = 1, <<c.hel2, c.shape_ok>>)
  /\ Stat("chains", Len(Rec.trs))

\* ---- C03: parity partners ----------------------------------------------------------------------
\* premise: two chains carry the same (non-empty) coefficient symbols and are node-wise equal
\* or daughter-reversed; then sign(a) * sign(b) = product of eta over exactly the reversed nodes
ParityClauses ==
  \A i \in DOMAIN Rec.trs : \A j \in DOMAIN Rec.trs :
     (i < j /\ Rec.chains[i].found = 1 /\ Rec.chains[j].found = 1
        /\ Len(Rec.chains[i].coef) > 0 /\ Rec.chains[i].coef = Rec.chains[j].coef
        /\ PartnerChains(Rec.trs[i], Rec.trs[j])
        /\ FlippedNodes(Rec.trs[i], Rec.trs[j]) # {}
        /\ \A S \in FlippedNodes(Rec.trs[i], Rec.trs[j]) : Eta(Rec.trs[i], S) # 0)
     => /\ Stat("parity-pairs", 1)
        /\ Clause("parity-sign-of-exactly-the-flipped-nodes",
                  Rec.chains[i].sign_num * Rec.chains[j].sign_num
                     = ProdEta(Rec.trs[i], FlippedNodes(Rec.trs[i], Rec.trs[j])),
                  <<i, j, Rec.chains[i].sign_num, Rec.chains[j].sign_num,
                    ProdEta(Rec.trs[i], FlippedNodes(Rec.trs[i], Rec.trs[j]))>>)

\* the converse (beyond C03's statement; what a fit relies on): a coefficient is shared ONLY by chains that are related - in the helicity
\* basis node-wise equal or daughter-reversed daughters (reversed only at nodes whose interaction fixes a parity factor), in the
\* canonical basis the same LS combination at every node - possibly after exchanging identical final-state particles.  Two unrelated
\* chains under one coefficient would silently remove a degree of freedom from the model.
\* premise: the parity factor is a function of the decay (parent, daughters, daughter projections up to reversing both) - true of
\* every reaction a solver produces, not of every hand-built one (the library keys its partner map by the printed decay, so a
\* decay with a parity factor in one topology and none in another couples the two)
SameDecay(a, S, b, T) ==
  /\ Part(a, S) = Part(b, T)
  /\ Part(a, HelChild(TreeOf(a), S)) = Part(b, HelChild(TreeOf(b), T))
  /\ Part(a, OppChild(TreeOf(a), S)) = Part(b, OppChild(TreeOf(b), T))
  /\ LET x == Daughters(a, S)  y == Daughters(b, T) IN x = y \/ (x[1] = -y[1] /\ x[2] = -y[2])
EtaIsFunctionOfDecay ==
  \A i \in DOMAIN Rec.trs : \A j \in DOMAIN Rec.trs :
     \A S \in Inner(TreeOf(Rec.trs[i])) : \A T \in Inner(TreeOf(Rec.trs[j])) :
        SameDecay(Rec.trs[i], S, Rec.trs[j], T) => Eta(Rec.trs[i], S) = Eta(Rec.trs[j], T)
SharingClauses ==
  \A i \in DOMAIN Rec.trs : \A j \in DOMAIN Rec.trs :
     (i < j /\ Rec.chains[i].found = 1 /\ Rec.chains[j].found = 1
        /\ Len(Rec.chains[i].coef) > 0 /\ Rec.chains[i].coef = Rec.chains[j].coef)
     => /\ Stat("shared-coefficient-pairs", 1)
        /\ Clause("coefficient-shared-only-by-related-chains",
                  \* (the premise is evaluated only for a pair that is not related: it is the expensive part)
                  \/ \E v \in PermVariants(Rec.trs[j]) :
                     /\ SameTreeAndParticles(Rec.trs[i], v)
                     /\ \A S \in Inner(TreeOf(Rec.trs[i])) :
                           IF Canonical THEN LSEqual(Rec.trs[i], v, S)
                           ELSE /\ NodeRelated(Rec.trs[i], v, S)
                                /\ (NodeFlipped(Rec.trs[i], v, S) => Eta(Rec.trs[i], S) # 0)
                  \/ ~ EtaIsFunctionOfDecay,
                  <<i, j, Rec.chains[i].coef>>)

\* ---- C01: closure -----------------------------------------------------------------------------
Cl == Rec.closure
KeySet(seq) == { <<SetOfSets(seq[i][1]), seq[i][2]>> : i \in DOMAIN seq }
ClosureClauses ==
  LET free == ToSet(Cl.free)  params == ToSet(Cl.params)  kin == ToSet(Cl.kin)
      used == KeySet(Cl.used)  defined == KeySet(Cl.defined) IN
  /\ Clause("every-summed-amplitude-is-defined", used \subseteq defined, used \ defined)
  /\ Clause("every-free-symbol-is-parameter-or-kinematic-variable", free \subseteq (params \cup kin), free \ (params \cup kin))
  /\ Clause("parameter-xor-kinematic-variable", params \cap kin = {}, params \cap kin)
  /\ \A i \in DOMAIN Cl.kin_deps :
        Clause("kinematic-variable-depends-on-four-momenta-only",
               ToSet(Cl.kin_deps[i][2]) \subseteq ToSet(Cl.momenta), <<Cl.kin_deps[i][1], ToSet(Cl.kin_deps[i][2]) \ ToSet(Cl.momenta)>>)
  \* the specification's own prediction of the two key sets (implementation-shaped part)
  \* (an aligned model sums rotated projections over the whole spin range of every outer state and registers the
  \* vanishing amplitudes of that larger range: there the prediction is a lower bound)
  /\ Drift("defined-keys-as-predicted",
           IF Rec.aligned = 0 THEN defined = ExpectedKeys(Rec.trs) \cup SummedKeys(Rec.trs)
           ELSE (ExpectedKeys(Rec.trs) \cup SummedKeys(Rec.trs)) \subseteq defined, <<defined, ExpectedKeys(Rec.trs)>>)
  /\ (Rec.aligned = 0 => Drift("summed-keys-as-predicted", used = SummedKeys(Rec.trs), <<used, SummedKeys(Rec.trs)>>))
  /\ Drift("amplitude-definitions-have-numeric-projections", Cl.symbolic_defs = 0, Cl.symbolic_defs)
  /\ Stat("closure-symbols", Cardinality(free))

\* (the clauses are compared with TRUE so that TLC evaluates them as expressions: as conjuncts of the action it would unfold the
\* quantifiers over pairs of chains into nested continuations - a stack overflow from about 140 transitions on)
Step == /\ l <= Len(Log)
        /\ (Rec.do_formula = 1 => ChainClauses /\ AmpClauses) = TRUE
        /\ (Rec.do_parity = 1 => ParityClauses) = TRUE
        /\ ((Rec.do_parity = 1 /\ Rec.default_naming = 1) => SharingClauses) = TRUE
        /\ (Rec.do_closure = 1 => ClosureClauses) = TRUE
        /\ l' = l + 1
TraceInit == l = 1
TraceSpec == TraceInit /\ [][Step]_l
TraceAccepted == TLCGet("stats").diameter = Len(Log) + 1
=============================================================================
