------------------------------- MODULE Topo -------------------------------
(***************************************************************************)
(* Isobar decay topologies and the meaning of kinematic-variable names.    *)
(*                                                                         *)
(* A topology over final-state ids is identified with the laminar family   *)
(* T of the final-state sets attached to its edges (root = all ids, leaves *)
(* = singletons, every non-leaf has exactly two children).  This is the    *)
(* identity the library's naming uses; the numbering of intermediate edges *)
(* is an implementation detail that no meaning may depend on.              *)
(***************************************************************************)
EXTENDS Integers, Sequences, FiniteSets, FiniteSetsExt, SequencesExt

SortedSeq(S) == SetToSortSeq(S, <)
RECURSIVE LexLessSeq(_, _)
LexLessSeq(a, b) == IF a = <<>> THEN b # <<>> ELSE IF b = <<>> THEN FALSE
                    ELSE IF Head(a) < Head(b) THEN TRUE ELSE IF Head(a) > Head(b) THEN FALSE
                    ELSE LexLessSeq(Tail(a), Tail(b))
\* order on attached final-state tuples (Python tuple comparison of sorted ids)
LexLess(A, B) == LexLessSeq(SortedSeq(A), SortedSeq(B))

\* ---- enumeration of all isobar trees over a leaf set ------------------------
Splits(S) == { A \in SUBSET S : A # {} /\ A # S /\ LexLess(A, S \ A) }
RECURSIVE Trees(_)
Trees(S) == IF Cardinality(S) = 1 THEN { {S} }
            ELSE UNION { { {S} \cup ta \cup tb : ta \in Trees(A), tb \in Trees(S \ A) } : A \in Splits(S) }

\* ---- structure ---------------------------------------------------------------
Root(T) == UNION T
Decays(S) == Cardinality(S) > 1
Inner(T) == { S \in T : Decays(S) }
Kids(T, S) == { C \in T : C \subseteq S /\ C # S /\
                \A D \in T : (C \subseteq D /\ D \subseteq S) => (D = C \/ D = S) }
IsIsobar(T) == /\ \A S \in T : S # {}
               /\ \A S \in T, R \in T : S \cap R = {} \/ S \subseteq R \/ R \subseteq S
               /\ \A S \in Inner(T) : Cardinality(Kids(T, S)) = 2 /\ UNION Kids(T, S) = S
               /\ \A i \in Root(T) : {i} \in T
               /\ Root(T) \in T
\* "state 0 is never the opposite-helicity state; the sibling of an opposite state is a
\* helicity state": the helicity child is the one with the lexicographically smaller tuple
HelChild(T, S) == CHOOSE C \in Kids(T, S) : \A D \in Kids(T, S) : D = C \/ LexLess(C, D)
OppChild(T, S) == CHOOSE C \in Kids(T, S) : C # HelChild(T, S)
Parent(T, S)   == CHOOSE P \in T : S \in Kids(T, P)
IsOpposite(T, S) == S # Root(T) /\ OppChild(T, Parent(T, S)) = S
RECURSIVE Chain(_, _)   \* ancestors of S strictly below the root, innermost first
Chain(T, S) == IF S = Root(T) THEN <<>> ELSE LET P == Parent(T, S) IN
               IF P = Root(T) THEN <<>> ELSE <<P>> \o Chain(T, P)

\* ---- names --------------------------------------------------------------------
\* "_S^C1,C2,..." as a sequence of sets: the state, then its ancestors below the root
AngleName(T, S) == <<S>> \o Chain(T, S)
MassName(S) == S
\* topology identifier "12" / "01,23": the set of intermediate (non-root, non-leaf) sets
TopoId(T) == { S \in Inner(T) : S # Root(T) }

\* ---- meanings -------------------------------------------------------------------
\* Dir(S, frame): polar and azimuthal angle of sum_{i in S} p_i after the chain `frame` of
\* helicity-frame transformations Bz Ry(-theta) Rz(-phi), applied outermost first; `frame`
\* is listed innermost first (like Chain).  Mass(S): Minkowski norm of sum_{i in S} p_i.
Frame(T, S) == IF S = Root(T) THEN <<>> ELSE <<S>> \o Chain(T, S)
\* documented convention (calibrated on the doctests: theta_0 = Theta(p1+p2) for 0(12)):
\* the angle pair of a decay node is NAMED after its helicity child and GIVES the
\* direction of the opposite child if that one decays further, else of the helicity child,
\* seen in the rest frame chain of the decaying state
DocAngle(T, S) == LET h == HelChild(T, S)  o == OppChild(T, S) IN
  [name |-> AngleName(T, h), target |-> IF Decays(o) THEN o ELSE h, frame |-> Frame(T, S)]
DocAngles(T) == { DocAngle(T, S) : S \in Inner(T) }
DocMasses(T) == { [name |-> S, target |-> S] : S \in T }

\* deviation SiblingOverwrite (pinned tree): when both children decay further, both write
\* the same name and the child with the larger edge id wins
ImplAngle(T, S, oppLast) == LET h == HelChild(T, S)  o == OppChild(T, S) IN
  [name |-> AngleName(T, h),
   target |-> IF Decays(o) /\ Decays(h) THEN (IF oppLast[S] THEN o ELSE h)
              ELSE IF Decays(o) THEN o ELSE h,
   frame |-> Frame(T, S)]
BothDecay(T) == { S \in Inner(T) : \A C \in Kids(T, S) : Decays(C) }
ImplAngles(T, oppLast) == { ImplAngle(T, S, oppLast) : S \in Inner(T) }

NoNameClash(A1, A2) == \A a \in A1, b \in A2 : a.name = b.name => a = b
NamesInjective(A) == \A a \in A, b \in A : a.name = b.name => a = b

\* relabelling of final-state ids (HelicityAdapter.permutate_registered_topologies)
Relabel(T, pi) == { { pi[i] : i \in S } : S \in T }
=============================================================================
