"""C18 binding: ExprOps behaviours over the pool universe executed on real PoolSum objects
(specification -> code), and operation records of larger random pool sums for Trace_Expr
(code -> specification).  The expected values all come from TLC (the `cur`, `fs`, `den`
variables of ExprOps, or Trace_Expr recomputing them); Python only builds, executes,
projects, compares and classifies."""
from __future__ import annotations

import pickle
import random
import re

import sympy as sp

from . import expr_terms as T
from .expr_terms import A, AT, BG, H, IX, K

SIG_SUBS = "PoolSum.subs:bound-index-substituted"
SIG_XREPLACE = "PoolSum.xreplace:bound-index-substituted"
SIG_CLEANUP_UNUSED = "PoolSum.cleanup:unused-index-dropped-changes-multiplicity"


# ---- configuration text ----------------------------------------------------------------
def pool_cfg(*, init="PoolInit", maps="PoolMaps", pairs="PoolPairs", ctxs="NoTerms", vary=True,
             max_ops=1, max_depth=4, nest_anytime=False, leafs=("x",), idxs=("i", "j"), vals=("1",), poolset="PoolsSmall",
             max_idx=2, max_inner_idx=1, dev="DevNone", check=True, full_quantification=False):
    s = lambda xs: "{" + ", ".join(f'"{x}"' for x in xs) + "}"
    cfg = f"""SPECIFICATION Spec
CONSTANTS
 EvalClasses = {{}}
 Dev <- {dev}
 InitTerms <- {init}
 Maps <- {maps}
 Pairs <- {pairs}
 SubsMaps <- NoMaps
 Ctxs <- {ctxs}
 VaryArgs <- {"PoolVaryArgs" if vary else "NoTerms"}
 VaryAttrs <- NoLabels
 VaryPools <- {"PoolVaryPools" if vary else "NoPools"}
 MaxOps = {max_ops}
 MaxDepth = {max_depth}
 NestAnytime = {"TRUE" if nest_anytime else "FALSE"}
 LeafS = {s(leafs)}
 IdxS = {s(idxs)}
 BodyVals = {s(vals)}
 PoolSet <- {poolset}
 MaxIdx = {max_idx}
 MaxInnerIdx = {max_inner_idx}
 BuildD2 = {'FALSE' if init in ('F2', 'PoolZInit') else 'TRUE'}
 SlotsAr1 = {{}}
 SlotsAr2 = {{}}
 SlotsNa0 = {{}}
 SlotsNa1 = {{}}
 SlotsNa2 = {{}}
 OuterSlots = {{}}
 InnerSlots = {{}}
CHECK_DEADLOCK FALSE
"""
    if check:
        cfg += "INVARIANT InvLaws\nINVARIANT InvWellFormed\nINVARIANT InvFree\nPROPERTY StutterProp\nPROPERTY ValueProp\nPROPERTY FreeProp\n"
    if full_quantification:
        cfg += FULL_QUANTIFICATION
    return cfg


# every law for every map of the configuration in every reachable state (small configurations)
FULL_QUANTIFICATION = ("INVARIANT InvDerived\nINVARIANT InvSubstEvalAll\nINVARIANT InvBoundIdentAll\nINVARIANT InvHomomorphismAll\n"
                       "INVARIANT InvCleanup\nINVARIANT InvDoitIdem\n")


_COV = re.compile(r"^<(\w+) line (\d+), col \d+ to line \d+, col \d+ of module (\w+)(?: \((\d+) [^)]*\))?>: (\d+):(\d+)", re.M)


def action_totals(res):
    """per-action number of transitions taken, from TLC's -coverage output (vacuity check);
    the disjuncts of Next that TLC does not name (Nest, Vary) are reported by their line."""
    out = {}
    for m in _COV.finditer(res.raw):
        name = m.group(1) if m.group(1) != "Next" else f"Next@{m.group(4)}"
        out[name] = out.get(name, 0) + int(m.group(6))
    return out


def run_tlc(module, cfg, *, retries=2, **kw):
    """tlc.run with a retry for a sporadic TLC-internal failure met with several workers
    ("Field name ... occurs multiple times in record": concurrent normalisation of a shared record value)"""
    from . import tlc

    for attempt in range(retries + 1):
        try:
            return tlc.run(module, cfg, **kw)
        except tlc.TLCFailure as e:
            if "occurs multiple times in record" in str(e) and attempt < retries:
                if attempt == retries - 1:
                    kw["workers"] = 1
                continue
            raise


def simulate_parallel(module, cfg, *, num, depth, seed, jobs=4, timeout=900):
    """tlc -simulate is single threaded: split the behaviours over `jobs` TLC processes (different seeds)"""
    from concurrent.futures import ThreadPoolExecutor

    from . import tlc

    per = [num // jobs + (1 if j < num % jobs else 0) for j in range(jobs)]
    with ThreadPoolExecutor(max_workers=jobs) as ex:
        futs = [ex.submit(tlc.simulate, module, cfg, num=n, depth=depth, seed=seed * 1000 + j, timeout=timeout)
                for j, n in enumerate(per) if n > 0]
        out = []
        for f in futs:
            out.extend(f.result())
    return out


TRACE_CFG = """SPECIFICATION TraceSpec
CONSTANTS
 EvalClasses <- TraceEvalClasses
 Dev <- TraceDev
POSTCONDITION TraceAccepted
CHECK_DEADLOCK FALSE
"""


# ---- helpers on terms (bookkeeping only) ---------------------------------------------------
def bound_syms(t):
    out = set()
    if t[K] == "pool":
        out |= {s for s, _ in t[IX]}
    for y in t[A]:
        out |= bound_syms(y)
    for e, _ in t[BG]:
        out |= bound_syms(e)
    return out


def bag_of(t):
    return dict(t[BG]) if t[K] == "sum" else {t: 1}


def plug(ctx, real):
    """build the real object of a nesting context around an existing real object"""
    from ampform.sympy import PoolSum

    if ctx[K] == "leaf" and ctx[H] == "_":
        return real
    if ctx[K] == "leaf":
        return sp.Symbol(ctx[H])
    if ctx[K] == "val":
        return T.rational(ctx[H])
    if ctx[K] == "node":
        return sp.Function(ctx[H])(*[plug(y, real) for y in ctx[A]])
    if ctx[K] == "pool":
        return PoolSum(plug(ctx[A][0], real), *[(sp.Symbol(s), tuple(T.rational(v) for v in vs)) for s, vs in ctx[IX]])
    raise ValueError(ctx[K])


def probe_bound_rewrite(op):
    """does the implementation rewrite a bound index under this operation? (root-cause probe)"""
    from ampform.sympy import PoolSum

    f = sp.Function("f")
    i, j = sp.symbols("i j")
    p = PoolSum(f(i, j), (i, (1, 2)), (j, (3,)))
    try:
        q = p.subs(i, 5) if op == "subs" else p.xreplace({i: sp.Integer(5)})
    except Exception:  # noqa: BLE001
        return True
    return q != p


class PoolReplayer:
    """Executes ExprOps behaviours on real PoolSum objects."""

    def __init__(self, chk):
        self.chk = chk
        self.steps = 0
        self.states_checked = 0
        self.by_action = {}
        self.spec_states = set()
        self.paths_into = {}  # spec state -> srepr of the real object (path independence)

    # -- one behaviour -------------------------------------------------------------------
    def replay(self, beh, tag=""):
        real, cur, hist = self.start(beh[0]["state"], tag)
        for step in beh[1:]:
            real, cur, hist = self.advance(real, cur, hist, step, tag)
        self.chk.count(1)

    def start(self, st0, tag=""):
        cur = T.from_tla(st0["cur"])
        real = T.concretise_pool(cur)
        hist = [("Init", T.show(cur))]
        self.observe(real, cur, st0, hist, tag)
        return real, cur, hist

    def advance(self, real, cur, hist, step, tag=""):
        act, args, st = step["action"], step["args"], step["state"]
        nxt = T.from_tla(st["cur"])
        self.steps += 1
        self.by_action[act] = self.by_action.get(act, 0) + 1
        hist = hist + [(act, self.show_args(act, args))]
        try:
            # a neighbour (equality law) is not an operation on the object: it is built from the specification state
            got = T.concretise_pool(nxt) if act.startswith("Vary") else self.apply(act, args, real, cur)
        except Exception as e:  # noqa: BLE001
            self.chk.violation(
                f"PoolSum.{self.opname(act)}:raises-{type(e).__name__}",
                f"{self.opname(act)} raised {e!r} on {real}; history {hist}",
                {"history": hist, "term": T.show(cur)},
            )
            real = T.concretise_pool(nxt)
            self.observe(real, nxt, st, hist, tag)
            return real, nxt, hist
        ok = self.compare_step(act, args, cur, real, got, nxt, st, hist)
        real = got if ok else T.concretise_pool(nxt)
        self.observe(real, nxt, st, hist, tag)
        return real, nxt, hist

    @staticmethod
    def opname(act):
        return {"Xreplace": "xreplace", "Subs": "subs", "DoitA": "doit", "RebuildA": "rebuild", "PickleA": "pickle",
                "CleanupA": "cleanup", "Nest": "__new__", "VaryArg": "__eq__", "VaryPool": "__eq__"}.get(act, act)

    @staticmethod
    def show_args(act, args):
        if act == "Xreplace":
            return {T.show(k): T.show(r) for k, r in T.map_from_tla(args[0])}
        if act == "Subs":
            return [T.show(T.from_tla(args[0])), T.show(T.from_tla(args[1]))]
        if act == "Nest":
            return T.show(T.from_tla(args[0]))
        if act == "VaryArg":
            return [int(args[0]), T.show(T.from_tla(args[1]))]
        if act == "VaryPool":
            return [int(args[0]), [str(v) for v in args[1]]]
        return ""

    def apply(self, act, args, real, cur):
        if act == "Xreplace":
            m = T.map_from_tla(args[0])
            return real.xreplace({T.concretise_pool(k): T.concretise_pool(r) for k, r in m})
        if act == "Subs":
            return real.subs(T.concretise_pool(T.from_tla(args[0])), T.concretise_pool(T.from_tla(args[1])))
        if act == "DoitA":
            return real.doit()
        if act == "RebuildA":
            return real.func(*real.args)
        if act == "PickleA":
            return pickle.loads(pickle.dumps(real))
        if act == "CleanupA":
            return real.cleanup()
        if act == "Nest":
            return plug(T.from_tla(args[0]), real)
        raise ValueError(f"unknown action {act}")

    # -- comparison of one step ---------------------------------------------------------------
    def compare_step(self, act, args, cur, real, got, nxt, st, hist):
        chk = self.chk
        proj = T.project_pool(got)
        case = {"history": hist, "before": T.show(cur), "expected": T.show(nxt), "got": str(got), "object_srepr": sp.srepr(real),
                "operation": self.opname(act)}
        if act.startswith("Vary"):
            # equality / hash law on a neighbour that differs in one argument or one pool
            if real == got or hash(real) == hash(got):
                chk.violation("PoolSum.__eq__:unequal-terms-compare-or-hash-equal",
                              f"{real} and {got} differ in one argument/pool but ==: {real == got}, hash equal: {hash(real) == hash(got)}", case)
            return proj == nxt
        if proj == nxt:
            if act in ("RebuildA", "PickleA") and not (got == real and hash(got) == hash(real) and sp.srepr(got) == sp.srepr(real)):
                chk.violation(f"PoolSum.{self.opname(act)}:not-identity", f"{real} -> {got}", case)
            return True
        # ---- mismatch: classify
        if act in ("Xreplace", "Subs"):
            m = T.map_from_tla(args[0]) if act == "Xreplace" else ((T.from_tla(args[0]), T.from_tla(args[1])),)
            keys = {k[H] for k, _ in m if k[K] == "leaf"}
            op = self.opname(act)
            if keys & bound_syms(cur) and probe_bound_rewrite(op):
                chk.violation(SIG_SUBS if op == "subs" else SIG_XREPLACE,
                              f"{real}.{op}({hist[-1][1]}) -> {got}; the specification requires {T.show(nxt)} (summation indices are bound)", case)
            else:
                chk.violation(f"PoolSum.{op}:result-differs-from-substitution",
                              f"{real}.{op}({hist[-1][1]}) -> {got}; the specification requires {T.show(nxt)}", case)
            return False
        if act == "DoitA":
            self.doit_violation(cur, real, proj, nxt, case)
            return False
        if act == "CleanupA":
            # the clause is about the value: compare the unfolded results
            try:
                val_got = T.project_pool(got.doit())
            except Exception as e:  # noqa: BLE001
                chk.violation(f"PoolSum.cleanup:result-raises-{type(e).__name__}", f"{real}.cleanup() = {got}; doit raises {e!r}", case)
                return False
            val_exp = T.from_tla(st["den"])
            if val_got == val_exp:
                chk.spec_drift("PoolSum.cleanup() returns a term of a different shape than ExprAlgebra!Cleanup with the same value "
                               f"(e.g. {real} -> {got}, specification {T.show(nxt)})")
                return False
            self.cleanup_violation(cur, real, got, val_got, val_exp, case)
            return False
        if act in ("RebuildA", "PickleA"):
            chk.violation(f"PoolSum.{self.opname(act)}:not-identity", f"{real} -> {got}", case)
            return False
        if act == "Nest":
            chk.violation("PoolSum.__new__:arguments-not-preserved", f"constructed {got}, specification {T.show(nxt)}", case)
            return False
        raise ValueError(act)

    def doit_violation(self, cur, real, proj, expected, case):
        if T.shadowing(cur) and (probe_bound_rewrite("subs") or probe_bound_rewrite("xreplace")):
            sig = SIG_SUBS if probe_bound_rewrite("subs") else SIG_XREPLACE
            self.chk.violation(sig, f"{real}.doit() = {T.show(proj)}, the finite sum over the pools is {T.show(expected)} "
                                    "(an inner sum over the same index is rewritten when the outer index is substituted)", case)
        else:
            self.chk.violation("PoolSum.doit:differs-from-sum-over-cartesian-product",
                               f"{real}.doit() = {T.show(proj)}, the finite sum over the pools is {T.show(expected)}", case)

    def cleanup_violation(self, cur, real, got, val_got, val_exp, case):
        # narrow known signature: the *only* discrepancy is the multiplicity lost by dropping
        # indices that do not occur in the summand and have >= 2 values
        try:
            body_free = {s.name for s in real.args[0].free_symbols}
        except Exception:  # noqa: BLE001
            body_free = set()
        factor = 1
        for s, vs in cur[IX]:
            if s not in body_free and len(vs) >= 2:
                factor *= len(vs)
        bg, be = bag_of(val_got), bag_of(val_exp)
        if factor > 1 and set(bg) == set(be) and all(be[e] == bg[e] * factor for e in be):
            self.chk.violation(SIG_CLEANUP_UNUSED,
                               f"{real}.cleanup() = {got} has value {T.show(val_got)}, but {real}.doit() = {T.show(val_exp)}: "
                               f"an index that does not occur in the summand was dropped although its pool has {factor} values", case)
        elif T.shadowing(cur) and probe_bound_rewrite("xreplace"):
            self.chk.violation(SIG_XREPLACE, f"{real}.cleanup() = {got} changes the value to {T.show(val_got)} (expected {T.show(val_exp)}): "
                                             "the singleton index was substituted into an inner sum over the same index", case)
        else:
            self.chk.violation("PoolSum.cleanup:value-changed",
                               f"{real}.cleanup() = {got} has value {T.show(val_got)}, but the sum is {T.show(val_exp)}", case)

    # -- observations in a state ------------------------------------------------------------------
    def observe(self, real, cur, st, hist, tag):
        chk = self.chk
        self.states_checked += 1
        self.spec_states.add(cur)
        case = {"history": hist, "term": T.show(cur)}
        # path independence: every path into one specification state gives ==, hash-equal, srepr-equal objects
        fresh = T.concretise_pool(cur)
        if not (fresh == real and hash(fresh) == hash(real) and sp.srepr(fresh) == sp.srepr(real)):
            chk.violation("PoolSum:path-dependent-object",
                          f"object reached by {hist} is {sp.srepr(real)}, built directly {sp.srepr(fresh)}", case)
        prev = self.paths_into.setdefault(cur, sp.srepr(real))
        if prev != sp.srepr(real):
            chk.violation("PoolSum:path-dependent-object", f"two paths into {T.show(cur)} give {prev} and {sp.srepr(real)}", case)
        # free symbols
        fs_spec = {str(x) for x in st["fs"]}
        try:
            fs_real = {s.name for s in real.free_symbols}
        except Exception as e:  # noqa: BLE001
            chk.violation(f"PoolSum.free_symbols:raises-{type(e).__name__}", f"{real}: {e!r}", case)
            fs_real = fs_spec
        if fs_real != fs_spec:
            chk.violation("PoolSum.free_symbols:differs-from-summand-minus-indices",
                          f"{real}.free_symbols = {sorted(fs_real)}, specification {sorted(fs_spec)}", case)
        # value
        den = T.from_tla(st["den"])
        try:
            val = T.project_pool(real.doit())
        except Exception as e:  # noqa: BLE001
            chk.violation(f"PoolSum.doit:raises-{type(e).__name__}", f"{real}.doit(): {e!r}", case)
            return
        if val != den:
            self.doit_violation(cur, real, val, den, case)
        if T.has_pool(cur):
            feats = (len(cur[IX]), T.depth(cur), T.shadowing(cur), any(len(set(vs)) < len(vs) for _, vs in cur[IX]),
                     any(len(vs) == 1 for _, vs in cur[IX]))
            chk.nontrivial(("state", cur))
            self.features = getattr(self, "features", set())
            self.features.add(feats)


# ---- code -> specification: operation records on larger random pool sums -----------------------
LABELS = ["1", "2", "3", "-1", "1/2", "-1/2", "3/2", "0"]


def random_pool_term(rng, depth, idx_syms, leaf_syms, max_idx=4):
    """abstract term (used only to *construct* an input; the expected results come from TLC)"""
    atoms = [T.leaf(s) for s in leaf_syms + idx_syms] + [T.val(v) for v in LABELS[:3]]

    def summand(d):
        r = rng.random()
        if d > 0 and r < 0.45:
            inner = pool_term(d - 1)
            if rng.random() < 0.5:
                return inner
            return T.node("g", [rng.choice(atoms), inner])
        ar = rng.choice([1, 2, 2, 3])
        if rng.random() < 0.2:   # the interpreted head: zero as soon as one argument is zero
            z = T.node("Z", [rng.choice(atoms[:-3]), rng.choice(atoms[:-3])])
            return z if rng.random() < 0.3 else T.node("g", [rng.choice(atoms), z])
        return T.node("f", [rng.choice(atoms) for _ in range(ar)])

    def pool_term(d):
        nidx = rng.choice([0, 1, 1, 2, 2, 3, max_idx])
        syms = rng.sample(idx_syms, min(nidx, len(idx_syms)))
        ix = []
        for s in syms:
            n = rng.choice([1, 1, 2, 2, 3])
            vs = [rng.choice(LABELS if rng.random() < 0.7 else ["0", "1"]) for _ in range(n)]
            if n >= 2 and rng.random() < 0.3:
                vs[1] = vs[0]  # duplicate
            ix.append((s, tuple(vs)))
        return T.pool(summand(d), ix)

    return pool_term(depth)


def trace_records(rng, n_terms, start_id=0):
    """Run the real operations on random pool sums and log (term, operation, projected result)."""
    idx_syms = ["i", "j", "k", "l"]
    leaf_syms = ["x", "y"]
    recs, samples = [], []
    rid = start_id
    repl_pool = [T.leaf("z"), T.val("5"), T.val("1"), T.node("h", [T.leaf("z")]), T.leaf("x")]
    for _ in range(n_terms):
        t = random_pool_term(rng, rng.choice([0, 1, 1, 2, 2]), idx_syms, leaf_syms)
        real = T.concretise_pool(t)
        t = T.project_pool(real)  # what was really constructed
        ops = []
        # doit
        ops.append({"op": "doit", "t": T.to_json(t), "r": T.to_json(T.project_pool(real.doit()))})
        # free symbols
        ops.append({"op": "free", "t": T.to_json(t), "fs": sorted(s.name for s in real.free_symbols)})
        # cleanup
        ops.append({"op": "cleanup", "t": T.to_json(t), "r": T.to_json(T.project_pool(real.cleanup()))})
        # identity operations
        ops.append({"op": "pickle", "t": T.to_json(t), "r": T.to_json(T.project_pool(pickle.loads(pickle.dumps(real))))})
        ops.append({"op": "rebuild", "t": T.to_json(t), "r": T.to_json(T.project_pool(real.func(*real.args)))})
        # substitutions: free symbols, bound indices, absent symbols; subs and xreplace
        bound = bound_syms(t)
        for _k in range(3):
            nkeys = rng.choice([1, 1, 2])
            keys = rng.sample(leaf_syms + idx_syms + ["w"], nkeys)
            m = []
            for key in keys:
                r = rng.choice(repl_pool)
                if T.leaves(r) & bound or r == T.leaf(key):
                    r = T.val("5")
                m.append((T.leaf(key), r))
            real_map = {T.concretise_pool(k): T.concretise_pool(r) for k, r in m}
            if len(m) == 1 and rng.random() < 0.5:
                (k, r), = real_map.items()
                res = real.subs(k, r)
            else:
                res = real.xreplace(real_map)
            ops.append({"op": "subst", "t": T.to_json(t), "m": T.map_to_json(m), "r": T.to_json(T.project_pool(res))})
        # a summation index that also occurs FREE next to the sum: g(sum, i) with a rule for i - the occurrence inside the sum is
        # bound and stays, the free one is replaced (and the caller's rule is the same for every part of the expression)
        if bound:
            kname = sorted(bound)[rng.randrange(len(bound))]
            ksym = T.concretise_pool(T.leaf(kname))
            for order in (0, 1):
                wrapped = sp.Function("g")(real, ksym) if order == 0 else sp.Function("g")(ksym, real)
                rule = {ksym: sp.Integer(5)}
                res = wrapped.xreplace(rule)
                ops.append({"op": "subst", "t": T.to_json(T.project_pool(wrapped)), "m": T.map_to_json([(T.leaf(kname), T.val("5"))]), "r": T.to_json(T.project_pool(res))})
                if rule != {ksym: sp.Integer(5)}:   # the rule object was modified: the next use of it would substitute something else
                    ops.append({"op": "subst", "t": T.to_json(T.project_pool(ksym)), "m": T.map_to_json([(T.leaf(kname), T.val("5"))]), "r": T.to_json(T.project_pool(ksym.xreplace(rule)))})
        # the caller's symbol is EQUAL to the summation index but not the same object (SymPy hands out a new object for a name once
        # the old one has left its symbol cache): bound is bound
        if bound:
            from sympy.core.cache import clear_cache

            kname = sorted(bound)[rng.randrange(len(bound))]
            old_obj = T.concretise_pool(T.leaf(kname))
            clear_cache()
            fresh = sp.Symbol(kname, **{k_: v_ for k_, v_ in old_obj.assumptions0.items() if k_ in getattr(old_obj, "_assumptions_orig", {})})
            if fresh == old_obj and fresh is not old_obj:
                ops.append({"op": "subst", "t": T.to_json(t), "m": T.map_to_json([(T.leaf(kname), T.val("5"))]), "r": T.to_json(T.project_pool(real.subs(fresh, sp.Integer(5))))})
                ops.append({"op": "subst", "t": T.to_json(t), "m": T.map_to_json([(T.leaf(kname), T.val("5"))]), "r": T.to_json(T.project_pool(real.xreplace({fresh: sp.Integer(5)})))})
                ops.append({"op": "doit", "t": T.to_json(t), "r": T.to_json(T.project_pool(real.doit()))})
        # equality with a rebuilt copy and with a neighbour
        other = T.concretise_pool(t)
        ops.append({"op": "eq", "t": T.to_json(t), "u": T.to_json(T.project_pool(other)), "eq": int(real == other), "hash": int(hash(real) == hash(other))})
        for o in ops:
            o["id"] = rid
            rid += 1
        recs.extend(ops)
        if len(samples) < 3:
            samples.append({"term": T.show(t), "doit": T.show(T.project_pool(real.doit())), "cleanup": str(real.cleanup())})
    return recs, samples
