"""C18 — PoolSum denotes the finite sum over its index pools.

spec/ExprAlgebra.tla gives pool sums their meaning (Eval with an environment: the bag of
summand instances over the cartesian product of the pools, duplicates counted, inner index
shadowing the outer one); spec/ExprOps.tla is the state machine of the public operations.
TLC checks the laws exhaustively on a small universe; behaviours of the specification are
executed on real PoolSum objects and compared state by state; operation records of larger
random sums are validated by spec/Trace_Expr.tla."""
from __future__ import annotations

import random
import time

from .. import tlc, trace
from .. import expr_pool as P
from .. import expr_terms as T
from ..core import Machinery
from ..expr_pool import run_tlc

LEVEL = "model_checking"
META = {
    "technique": "TLA+ term algebra ExprAlgebra (environment semantics of pool sums as bags) and state machine ExprOps "
    "model-checked exhaustively with TLC on a small universe; TLC -simulate behaviours and the dumped state graph "
    "executed on real PoolSum objects with projection to the abstract term after every step; operation records of "
    "larger random sums validated by Trace_Expr with TLC",
    "text": "The specification computes the denotation of a pool sum (bag of summand instances over the cartesian product, "
    "duplicates counted twice, nested sums, shadowed indices) independently of substitution, so that 'substitution of free "
    "symbols commutes with evaluation', 'a substitution for a bound index is the identity', 'cleanup keeps the value' and "
    "'free symbols = summand minus indices' are laws TLC checks on every term and every map of the universe. Every "
    "operation TLC chooses is executed on the real object and the projected result must equal the specification state "
    "(current term, free symbols, value); every path into a specification state must give ==, hash- and srepr-equal objects.",
    "note": "Bounds: exhaustive 1 leaf symbol + 2 index symbols + 1 value label in summands f(a,b), pools {(1),(1,2),(2,2)}, 0..2 "
    "indices, nesting Pool(Pool) and Pool(g(a,Pool)), every single/double map over 4 replacement terms, 1-2 operations; "
    "simulation: 3 index symbols, 5 pools incl. rational labels, nesting 3; traces: <= 4 indices per sum, nesting 3. "
    "Outside the statement and excluded: a replacement that mentions a bound index (capture), the same index symbol "
    "twice in one sum, pools containing symbols. Trusted: TLC, SymPy's Add/Function/subs on uninterpreted functions, the projection.",
    "design_ref": "DESIGN.md §4 C18",
}

ACTIONS = ["Xreplace", "Subs", "DoitA", "RebuildA", "PickleA", "CleanupA", "VaryArg", "VaryPool"]


def run(chk, replay=None):
    tier = chk.tier
    rng = random.Random(chk.seed)
    chk.assume(
        "TLC/SANY; SymPy's Add, Mul and subs/xreplace on applied undefined functions (the uninterpreted summand f)",
        "the projection real object -> abstract term (vf/expr_terms.py), exercised by the corruption test in the thorough tier",
        "a replacement term that mentions a bound index symbol (capture), a repeated index symbol within one sum and "
        "symbolic pool values are outside the statement and not generated",
    )
    # 1. the laws, exhaustively on the small universe (TLC jobs run side by side, <= 6 workers in total)
    from concurrent.futures import ThreadPoolExecutor

    if tier == "thorough":
        cfg = P.pool_cfg(max_ops=2, leafs=("x",), vals=("1",), poolset="PoolsSmall", max_idx=2, max_inner_idx=1)
    else:
        cfg = P.pool_cfg(max_ops=1)
    with ThreadPoolExecutor(max_workers=4) as ex:
        f_main = ex.submit(run_tlc, "ExprOps_MC", cfg, workers=3, fast_start=False, timeout=1500)
        # vacuity: every action must have been taken (coverage run on the smaller graph configuration)
        f_cov = ex.submit(run_tlc, "ExprOps_MC", P.pool_cfg(init="PoolGraphInit", max_ops=1, full_quantification=(tier == "thorough")), workers=1, coverage=True, timeout=600)
        # sensitivity: the named deviations must break the laws in the model
        f_dev = {dev: ex.submit(run_tlc, "ExprOps_MC", P.pool_cfg(init="PoolGraphInit", max_ops=1, dev=dev), workers=1, timeout=600)
                 for dev in ("DevBoundIndexSubs", "DevDropUnusedIndex")}
        # the interpreted head Z (a summand can lose an index by the value of another index): laws + sensitivity
        zkw = dict(init="PoolZInit", maps="PoolZMaps", pairs="PoolZPairs", leafs=("x",), idxs=("i", "j"), vals=("1",), poolset="PoolsZero", max_idx=2)
        # (quick: the laws on every transition taken; thorough: two operations and every law for every map in every state)
        f_z = ex.submit(run_tlc, "ExprOps_MC", P.pool_cfg(max_ops=2 if tier == "thorough" else 1, full_quantification=(tier == "thorough"), **zkw), workers=3, timeout=2400)
        f_dev["DevDropIndexUnusedAfterSubst"] = ex.submit(run_tlc, "ExprOps_MC", P.pool_cfg(max_ops=1, dev="DevDropIndexUnusedAfterSubst", **zkw), workers=1, timeout=600)
        res, cov = f_main.result(), f_cov.result()
        resz = f_z.result()
        devres = {k: f.result() for k, f in f_dev.items()}
    chk.add_tlc("laws_exhaustive_interpreted_head", resz)
    if not resz.ok:
        raise Machinery(f"the specification violates its own laws on the Z universe ({resz.violated})\n" + "\n".join(resz.error_trace[:40]))
    chk.add_tlc("laws_exhaustive", res)
    if not res.ok:
        raise Machinery(f"the specification violates its own laws ({res.violated}): specification error\n" + "\n".join(res.error_trace[:60]))
    totals = P.action_totals(cov)
    dead = [a for a in ACTIONS if totals.get(a, 0) == 0]
    if dead or not cov.ok:
        raise Machinery(f"vacuous model check: actions never taken {dead} (coverage {totals})")
    chk.part("laws_exhaustive", transitions_per_action_in_coverage_run=totals)
    chk.cov["exhaustive"] = True
    sens = {}
    for dev, r in devres.items():
        if r.ok:
            raise Machinery(f"model is insensitive: deviation {dev} does not violate InvLaws")
        sens[dev] = r.violated
    chk.part("deviation_sensitivity", **sens)

    rep = P.PoolReplayer(chk)
    # 2. specification -> code: behaviours ----------------------------------------------------
    if replay and replay.get("case"):
        print("replay case:", replay["case"])
    t0 = time.time()
    nsim, depth = (1100, 9) if tier == "thorough" else (130, 8)
    sim_small = P.pool_cfg(init="PoolInit", ctxs="PoolCtxs", max_ops=6, max_depth=6, nest_anytime=True, check=False)
    behs = P.simulate_parallel("ExprOps_MC", sim_small, num=nsim, depth=depth, seed=chk.seed + 1, jobs=5)
    sim_big = P.pool_cfg(init="F2", ctxs="PoolCtxs", max_ops=6, max_depth=6, nest_anytime=True, leafs=("x", "y"),
                         idxs=("i", "j", "k"), vals=("1", "3"), poolset="PoolsFull", max_idx=2, check=False)
    nbig = 400 if tier == "thorough" else 40
    behs_big = P.simulate_parallel("ExprOps_MC", sim_big, num=nbig, depth=depth, seed=chk.seed + 2, jobs=5)
    sim_z = P.pool_cfg(init="PoolZInit", maps="PoolZMaps", pairs="PoolZPairs", ctxs="PoolCtxs", max_ops=5, max_depth=5, nest_anytime=True, leafs=("x",),
                       idxs=("i", "j"), vals=("1",), poolset="PoolsZero", max_idx=2, check=False)
    behs_z = P.simulate_parallel("ExprOps_MC", sim_z, num=300 if tier == "thorough" else 50, depth=depth, seed=chk.seed + 3, jobs=5)
    behs_big = behs_big + behs_z
    for b in behs + behs_big:
        rep.replay(b)
    chk.part("simulation_replay", behaviours=len(behs) + len(behs_big), steps=rep.steps, states_checked=rep.states_checked,
             by_action=dict(rep.by_action), distinct_spec_states=len(rep.spec_states), wall_s=round(time.time() - t0, 1))
    chk.cov["traces_validated_against_impl"] += len(behs) + len(behs_big)
    if behs:
        b = behs[min(3, len(behs) - 1)]
        chk.sample({"behaviour": [[s["action"], P.PoolReplayer.show_args(s["action"], s["args"]), T.show(T.from_tla(s["state"]["cur"])),
                                   "value: " + T.show(T.from_tla(s["state"]["den"]))] for s in b]})

    # 3. specification -> code: the state graph of a small configuration (every edge once) -------
    graph_replay(chk, rep, tier)

    # 4. code -> specification: operation records of larger random sums -------------------------
    nterms = 1500 if tier == "thorough" else 180
    recs, samples = P.trace_records(rng, nterms)
    tv = trace.validate("Trace_Expr", recs, cfg=P.TRACE_CFG, timeout=1800)
    chk.add_tlc("trace_random_sums", tv.res, traces=nterms)
    chk.count(len(recs))
    chk.part("trace_random_sums", records=len(recs), rejects=len(tv.rejects), stats=tv.stats)
    for s in samples:
        chk.sample(s)
    for r in recs:
        if r["op"] == "doit":
            chk.nontrivial(("trace", str(r["t"])))
    for need in ("doit_nested", "doit_multiplicity", "subst_bound_only", "subst_changed", "cleanup_changed", "free_bound_nonempty"):
        if tv.stats.get(need, 0) == 0:
            raise Machinery(f"vacuous trace: antecedent {need} never held ({tv.stats})")
    byid = {r["id"]: r for r in recs}
    for clause, rid, *info in tv.rejects:
        classify_trace_reject(chk, clause, byid[rid])

    # 5. binding demonstration (thorough): corrupt one projected field -> the trace must be rejected
    if tier == "thorough":
        demo = [dict(r) for r in recs[:40]]
        victim = next(r for r in demo if r["op"] == "doit" and r["r"]["k"] == "sum")
        bad = dict(victim["r"])
        bad["bg"] = [[e, c + 1] if n == 0 else [e, c] for n, (e, c) in enumerate(bad["bg"])]
        victim["r"] = bad
        tv2 = trace.validate("Trace_Expr", demo, cfg=P.TRACE_CFG)
        if not any(c == "Doit" and i == victim["id"] for c, i, *_ in tv2.rejects):
            raise Machinery("binding demonstration failed: a corrupted multiplicity in a logged doit() result was not rejected")
        victim2 = next(r for r in demo if r["op"] == "free")
        victim2["fs"] = victim2["fs"] + ["i_not_free"]
        tv3 = trace.validate("Trace_Expr", demo, cfg=P.TRACE_CFG)
        if not any(c == "FreeSyms" and i == victim2["id"] for c, i, *_ in tv3.rejects):
            raise Machinery("binding demonstration failed: a corrupted free-symbol set was not rejected")
        chk.part("binding_demonstration", corrupted_multiplicity_rejected=True, corrupted_free_symbols_rejected=True)

    chk.cov["rule"] = (
        "cases = (a) every state/transition of ExprOps over the small pool universe (TLC, exhaustive), (b) TLC -simulate behaviours and "
        "the dumped state graph executed on real PoolSum objects, (c) operation records of random sums (<=4 indices, nesting 3) judged by "
        "Trace_Expr; distinct non-trivial = distinct abstract terms containing at least one pool sum that were built as real objects and "
        "whose value, free symbols and operations were compared with the specification"
    )
    chk.part("term_features_seen", features=sorted(map(str, getattr(rep, "features", set())))[:40],
             legend="(indices at top level, depth, shadowed index, duplicate values, singleton pool)")


def classify_trace_reject(chk, clause, rec):
    """Trace_Expr rejected a record: re-run the operation on the real object for the detail and signature."""
    t = json_term(rec["t"])
    real = T.concretise_pool(t)
    case = {"record": {k: v for k, v in rec.items() if k in ("id", "op")}, "term": T.show(t)}
    if clause == "CleanupKeepsValue":
        got = real.cleanup()
        val_got = T.project_pool(got.doit())
        val_exp = T.project_pool(real.doit())
        P.PoolReplayer(chk).cleanup_violation(t, real, got, val_got, val_exp, case)
    elif clause == "Subst":
        keys = {k["h"] for k, _ in rec["m"] if k["k"] == "leaf"}
        if keys & P.bound_syms(t) and (P.probe_bound_rewrite("subs") or P.probe_bound_rewrite("xreplace")):
            sig = P.SIG_SUBS if P.probe_bound_rewrite("subs") else P.SIG_XREPLACE
        else:
            sig = "PoolSum.subs:result-differs-from-substitution"
        chk.violation(sig, f"substitution {[(k['h'], T.show(json_term(r))) for k, r in rec['m']]} on {real} gave {T.show(json_term(rec['r']))}", case)
    elif clause == "Doit":
        P.PoolReplayer(chk).doit_violation(t, real, json_term(rec["r"]), T.leaf("(see Trace_Expr: Doit)"), case)
    elif clause == "FreeSyms":
        chk.violation("PoolSum.free_symbols:differs-from-summand-minus-indices", f"{real}.free_symbols = {rec['fs']}", case)
    elif clause in ("PickleIdentity", "RebuildIdentity"):
        chk.violation(f"PoolSum.{rec['op']}:not-identity", f"{real} -> {T.show(json_term(rec['r']))}", case)
    elif clause in ("EqIffSameTerm", "EqualHashAlike", "UnequalHashDiffer"):
        chk.violation("PoolSum.__eq__:" + clause, f"{real}: eq={rec['eq']} hash={rec['hash']}", case)
    else:
        raise Machinery(f"Trace_Expr rejected record {rec['id']} with clause {clause}: harness error")


def json_term(j):
    return (j["k"], j["h"], tuple(json_term(y) for y in j["a"]), tuple(j["at"]), tuple((s, tuple(vs)) for s, vs in j["ix"]),
            frozenset((json_term(e), c) for e, c in j["bg"]))


def graph_replay(chk, rep, tier):
    """Dump the complete state graph of a small configuration and execute every edge on real objects:
    the commuting diamonds are visible as nodes with several incoming paths."""
    import os
    import re
    import tempfile

    from .. import tlaval

    d = tempfile.mkdtemp(prefix="vf_dot_")
    path = os.path.join(d, "g.dot")
    try:
        cfg = P.pool_cfg(init="PoolGraphInit", maps="PoolGraphMaps", pairs="PoolGraphPairs", vary=False,
                         max_ops=2, max_idx=2 if tier == "thorough" else 1, check=False)
        res = tlc.run("ExprOps_MC", cfg, workers=1, dump_dot=path, timeout=900)
        text = open(path).read()
    finally:
        import shutil

        shutil.rmtree(d, ignore_errors=True)
    nodes, edges = {}, []
    for m in re.finditer(r'^(-?\d+) \[label="((?:[^"\\]|\\.)*)"', text, re.M):
        nodes[m.group(1)] = m.group(2)
    for m in re.finditer(r'^(-?\d+) -> (-?\d+) \[label="((?:[^"\\]|\\.)*)"', text, re.M):
        edges.append((m.group(1), m.group(2), m.group(3)))
    if not nodes or not edges:
        raise Machinery("state graph dump could not be parsed")

    def parse_state(lbl):
        lbl = lbl.replace("\\n", "\n").replace('\\"', '"').replace("\\\\", "\\")
        st = {}
        for part in re.split(r"^/\\ ", lbl, flags=re.M):
            part = part.strip()
            if part:
                var, _, v = part.partition(" = ")
                st[var.strip()] = tlaval.parse(v.strip())
        return st

    states = {k: parse_state(v) for k, v in nodes.items()}
    out = {}
    indeg = {}
    for a, b, lbl in edges:
        out.setdefault(a, []).append((b, lbl))
        indeg[b] = indeg.get(b, 0) + 1
    roots = [k for k, s in states.items() if s["n"] == 0]
    hdr = re.compile(r"^(\w+)(?:\((.*)\))?$", re.S)
    parsed_edges = {}
    for a, succ in out.items():
        lst = []
        for b, lbl in succ:
            lbl = lbl.replace('\\"', '"').replace("\\\\", "\\")
            m = hdr.match(lbl.strip())
            args = tlaval.parse("<<" + m.group(2) + ">>") if m.group(2) else ()
            lst.append((b, m.group(1), args))
        parsed_edges[a] = lst
    nedges = 0

    def walk(node, real, cur, hist):
        # a live implementation object per node on the current DFS path; every edge is executed
        nonlocal nedges
        for b, act, args in parsed_edges.get(node, []):
            if b == node and act in ("Nest",):
                continue
            r2, c2, h2 = rep.advance(real, cur, hist, {"action": act, "args": args, "state": states[b]}, "graph")
            nedges += 1
            if states[b]["n"] > states[node]["n"]:
                walk(b, r2, c2, h2)

    for r in roots:
        real, cur, hist = rep.start(states[r], "graph")
        walk(r, real, cur, hist)
        chk.count(1)
    chk.add_tlc("state_graph", res, traces=len(roots))
    chk.part("state_graph", nodes=len(nodes), edges=len(edges), roots=len(roots), edge_executions=nedges,
             nodes_with_several_incoming_paths=sum(1 for v in indeg.values() if v > 1))
