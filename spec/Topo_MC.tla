----------------------------- MODULE Topo_MC -----------------------------
(* Exhaustive check of the naming design: over every pair of isobar trees on N leaves
   (which covers every relabelling of every canonical topology) and every choice of which
   sibling is written last, (i) the documented meaning of a name never depends on the
   topology it comes from, (ii) names are injective inside a topology, (iii) the meaning
   does not depend on the numbering of intermediate edges; and the as-is merge rule
   (SiblingOverwrite) is shown to break (i) when Dev is switched on. *)
EXTENDS Topo, TLC
CONSTANTS N, Dev
F == 0..(N - 1)
VARIABLES T1, o1, T2, o2
vars == <<T1, o1, T2, o2>>
Init == /\ T1 \in Trees(F) /\ T2 \in Trees(F)
        /\ o1 \in [BothDecay(T1) -> BOOLEAN] /\ o2 \in [BothDecay(T2) -> BOOLEAN]
Next == UNCHANGED vars
Spec == Init /\ [][Next]_vars

Angles(T, o) == IF "SiblingOverwrite" \in Dev THEN ImplAngles(T, o) ELSE DocAngles(T)

WellFormed == IsIsobar(T1) /\ Cardinality(T1) = 2 * N - 1
NamesUnique == NamesInjective(Angles(T1, o1)) /\ Cardinality(Angles(T1, o1)) = N - 1
NoClash == NoNameClash(Angles(T1, o1), Angles(T2, o2))
MassNoClash == NoNameClash(DocMasses(T1), DocMasses(T2))
\* the name of a node's angle pair determines the node (so a Wigner-D can be attached to it)
NameDeterminesNode == \A S \in Inner(T1), R \in Inner(T1) :
   AngleName(T1, HelChild(T1, S)) = AngleName(T1, HelChild(T1, R)) => S = R
\* relabelling the leaves commutes with naming
RelabelCommutes == \A pi \in {p \in [F -> F] : \A i, j \in F : p[i] = p[j] => i = j} :
   IsIsobar(Relabel(T1, pi))
DevNone == {}
DevPinned == {"SiblingOverwrite"}
=============================================================================
