"""Executor for C06/C13: replays Builder.tla behaviours on real HelicityAmplitudeBuilder
objects, one forked child per behaviour (so that every process-global cache starts
clean), and computes reference digests of models in fresh children.

stdin : {"reaction": <name>, "formalism": ..., "mode": "replay"|"ref",
         "behaviours": [[["SetAlign",1,"dpd1"],["Formulate",1],...], ...]   (replay)
         "keys": [<key>...]                                                   (ref) }
stdout: {"results": ...}
A key is [cfg, choice, perm] with cfg = {"align","stable","scalar","coup","naming": {"parent","child","ls"}}, choice = {absname: tag}.
"""
from __future__ import annotations

import hashlib
import json
import logging
import os
import pickle
import sys

logging.disable(logging.CRITICAL)


def load_reaction(name, formalism):
    from ampform.helicity.align.dpd import relabel_edge_ids

    # DPD needs edge ids 0..3 (relabelled); axis-angle alignment needs the original ids (-1 = initial state)
    original_ids = name.endswith("@orig")
    name = name.removesuffix("@orig")

    from . import ampl

    if name.startswith("synth"):
        import random

        from . import ampl_universe as U

        rng = random.Random(int(name.split(":")[1]))
        while True:
            spec = U.synth_spec(rng, nfs=3, formalism=formalism, helset="full", ntop=1)
            if spec and 6 <= len(spec["transitions"]) <= 60:
                break
        r = ampl.make_reaction(spec)
    else:
        r = ampl.real_reaction(name, formalism)
    return r if original_ids else relabel_edge_ids(r)


def resonance_names(reaction):
    init = set(reaction.transitions[0].topology.incoming_edge_ids)
    fin = set(reaction.transitions[0].topology.outgoing_edge_ids)
    names = set()
    for t in reaction.transitions:
        for i, s in t.states.items():
            if i not in init and i not in fin:
                names.add(s.particle.name)
    return sorted(names)


def attr_digests(model) -> dict:
    import sympy as sp

    def h(x):
        return hashlib.sha256(x.encode()).hexdigest()[:16]

    def dd(d, val=lambda v: sp.srepr(v)):
        return h("|".join(f"{k if isinstance(k, str) else sp.srepr(k)}=>{val(v)}" for k, v in d.items()))

    return {
        "intensity": h(sp.srepr(model.intensity)),
        "amplitudes": dd(model.amplitudes),
        "parameter_defaults": dd(model.parameter_defaults, val=repr),
        "kinematic_variables": dd(model.kinematic_variables),
        "components": dd(model.components),
        "reaction_info": h(repr(model.reaction_info)),
    }


def restricted_reaction(reaction):
    """The same decay with a restricted helicity set of the initial state (the projection of smallest modulus removed):
    a different reaction over the same particles and topologies."""
    from qrules.transition import ReactionInfo

    t0 = reaction.transitions[0]
    init = next(iter(t0.topology.incoming_edge_ids))
    projs = sorted({float(t.states[init].spin_projection) for t in reaction.transitions}, key=lambda v: (abs(v), v))
    if len(projs) < 2:
        return reaction
    keep = [t for t in reaction.transitions if float(t.states[init].spin_projection) != projs[0]]
    return ReactionInfo(transitions=keep, formalism=reaction.formalism)


def relabelled_reaction(reaction):
    """The same reaction with another LaTeX label of every intermediate particle: qrules compares particles without their labels,
    so the transitions are equal objects for it, while every name the model derives from the labels differs."""
    import attrs
    from qrules.transition import ReactionInfo

    out = []
    for t in reaction.transitions:
        inter = set(t.topology.intermediate_edge_ids)
        states = {}
        for i, st in t.states.items():
            if i in inter:
                p_ = st.particle
                st = attrs.evolve(st, particle=attrs.evolve(p_, latex=(p_.latex or p_.name) + "^{\\star}"))
            states[i] = st
        out.append(attrs.evolve(t, states=states))
    return ReactionInfo(transitions=out, formalism=reaction.formalism)


_BWC: dict = {}


class World:
    def __init__(self, reaction):
        self.reaction = reaction
        self.reaction_sub = restricted_reaction(reaction)
        self.reaction_relab = relabelled_reaction(reaction)
        self.names = resonance_names(reaction)
        self.builders = {}
        self.naming_defaults = {}

    def builder(self, b):
        import ampform

        if b not in self.builders:
            # builder 3 works on the restricted reaction ("sub"), the others on the reaction as generated ("full")
            self.builders[b] = ampform.get_builder(self.reaction_sub if b == 3 else self.reaction_relab if b == 4 else self.reaction)
        return self.builders[b]

    def real_name(self, absname):
        idx = int(absname[1:]) - 1 if absname[1:].isdigit() else 0
        return self.names[idx] if idx < len(self.names) else None  # an abstract name without counterpart: no-op

    def apply(self, act):
        from ampform.dynamics.builder import create_non_dynamic, create_relativistic_breit_wigner, create_relativistic_breit_wigner_with_ff
        from ampform.helicity.align import NoAlignment
        from ampform.helicity.align.axisangle import AxisAngleAlignment
        from ampform.helicity.align.dpd import DalitzPlotDecomposition

        name, b = act[0], act[1]
        bl = self.builder(b)
        ids = sorted(self.reaction.final_state)
        if name == "SetAlign":
            a = act[2]
            bl.config.spin_alignment = NoAlignment() if a == "none" else AxisAngleAlignment() if a == "axis" else DalitzPlotDecomposition(int(a[3]))
        elif name == "SetStable":
            s = act[2]
            bl.config.stable_final_state_ids = None if s == "none" else set(ids) if s == "all" else {ids[0]} if s == "one" else {max(ids) + 7}
        elif name == "SetScalar":
            bl.config.scalar_initial_state_mass = bool(act[2])
        elif name == "SetCoup":
            bl.config.use_helicity_couplings = bool(act[2])
        elif name == "SetNameFlag":
            # one property setter per action; FALSE = the value the generator was constructed with (the defaults differ between
            # the helicity and the canonical generator), TRUE = the other one.  The helicity generator has no LS flag: no-op.
            attr = {"parent": "insert_parent_helicities", "child": "insert_child_helicities", "ls": "insert_ls_combinations"}[act[2]]
            if hasattr(bl.naming, attr):
                d = self.naming_defaults.setdefault((b, attr), getattr(bl.naming, attr))
                setattr(bl.naming, attr, (not d) if act[3] else d)
        elif name == "Assign":
            from ampform.dynamics.builder import RelativisticBreitWignerBuilder, create_analytic_breit_wigner

            # "bwc": the flag combination no convenience function offers (form factor, constant width); one builder object per process
            fn = {"none": create_non_dynamic, "bw": create_relativistic_breit_wigner, "bwff": create_relativistic_breit_wigner_with_ff,
                  "bwa": create_analytic_breit_wigner, "bwc": _BWC.setdefault("b", RelativisticBreitWignerBuilder(form_factor=True))}[act[3]]
            rn = self.real_name(act[2])
            if rn is not None:
                bl.dynamics.assign(rn, fn)
        elif name == "Permutate":
            bl.adapter.permutate_registered_topologies()
        elif name == "Formulate":
            try:
                return attr_digests(bl.formulate())
            except Exception as ex:  # noqa: BLE001
                return {"error": f"{type(ex).__name__}: {str(ex)[:200]}"}
        else:
            raise ValueError(name)
        return None


def key_to_actions(key, b=None):
    cfg, choice, perm = key
    if b is None:
        b = 3 if cfg.get("rx") == "sub" else 4 if cfg.get("rx") == "relab" else 1
    acts = [["SetAlign", b, cfg["align"]], ["SetStable", b, cfg["stable"]], ["SetScalar", b, cfg["scalar"]], ["SetCoup", b, cfg["coup"]]]
    # the shortest configuration: only the flags that differ from the constructor's (a history that assigns every flag has to
    # end in the same model)
    for f in ("parent", "child", "ls"):
        if cfg.get("naming", {}).get(f):
            acts.append(["SetNameFlag", b, f, 1])
    for n, t in sorted(choice.items()):
        acts.append(["Assign", b, n, t])
    if perm:
        acts.append(["Permutate", b])
    acts.append(["Formulate", b])
    return acts


def in_child(fn):
    """Run fn() in a forked child and return its JSON-able result."""
    r, w = os.pipe()
    pid = os.fork()
    if pid == 0:
        try:
            os.close(r)
            try:
                out = {"ok": fn()}
            except BaseException as ex:  # noqa: BLE001
                out = {"fail": f"{type(ex).__name__}: {ex}"}
            with os.fdopen(w, "w") as f:
                json.dump(out, f)
        finally:
            os._exit(0)
    os.close(w)
    with os.fdopen(r) as f:
        data = f.read()
    os.waitpid(pid, 0)
    return json.loads(data) if data else {"fail": "child died"}


def main():
    job = json.load(sys.stdin)
    reaction = load_reaction(job["reaction"], job["formalism"])
    import ampform  # noqa: F401  (imported before forking; nothing is formulated in this process)

    results = []
    if job["mode"] == "ref":
        for key in job["keys"]:
            def one(key=key):
                w = World(reaction)
                out = None
                for a in key_to_actions(key):
                    out = w.apply(a)
                return out
            results.append(in_child(one))
    else:
        for beh in job["behaviours"]:
            def run(beh=beh):
                w = World(reaction)
                outs = []
                for i, a in enumerate(beh):
                    d = w.apply(a)
                    if a[0] == "Formulate":
                        outs.append([i, d])
                return outs
            results.append(in_child(run))
    json.dump({"results": results, "names": resonance_names(reaction), "hashseed": os.environ.get("PYTHONHASHSEED", "")}, sys.stdout)


if __name__ == "__main__":
    main()
