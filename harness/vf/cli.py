"""vcheck <Cxx> --tier quick|thorough [--replay path]"""
from __future__ import annotations

import argparse
import importlib
import json
import logging
import os
import sys
import traceback

from . import core, tlc


def main(argv=None) -> int:
    ap = argparse.ArgumentParser(prog="vcheck")
    ap.add_argument("pid")
    ap.add_argument("--tier", default=os.environ.get("VERIF_TIER", "quick"), choices=["quick", "thorough"])
    ap.add_argument("--replay", default=None)
    args = ap.parse_args(argv)
    logging.disable(logging.CRITICAL)
    sys.setrecursionlimit(20000)  # deep expression trees (nested boosts) in sympy's printers and doit()
    pid = args.pid.upper()
    try:
        mod = importlib.import_module(f"vf.props.{pid.lower()}")
    except ModuleNotFoundError as e:
        print(f"no check for {pid}: {e}")
        return 2
    seed = core.env_seed()
    chk = core.Check(pid, args.tier, seed, mod.LEVEL)
    replay = None
    if args.replay:
        replay = json.loads(open(args.replay).read())
        print(f"replaying {args.replay}: {replay.get('signature')}")
    try:
        mod.run(chk, replay=replay)
    except (core.Machinery, tlc.TLCFailure) as e:
        print(f"MACHINERY-FAILURE property={pid}: {e}")
        return 2
    except Exception:  # noqa: BLE001
        print(f"MACHINERY-FAILURE property={pid}: unexpected exception")
        traceback.print_exc()
        return 2
    return chk.finish()


if __name__ == "__main__":
    sys.exit(main())
