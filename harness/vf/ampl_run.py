"""Shared pipeline of C01/C02/C03: universe -> real models -> records -> Trace_Amplitude."""
from __future__ import annotations

import random
import time

from . import ampl, trace
from . import ampl_universe as U
from .core import Machinery

REAL_QUICK = [("jpsi_gpp_f0", "helicity"), ("jpsi_gpp_f2", "canonical-helicity"), ("jpsi_3pi_rho", "canonical-helicity"), ("jpsi_gpp_omega", "helicity"), ("etac_lambdas", "helicity")]
REAL_THOROUGH = REAL_QUICK + [
    ("jpsi_gpp_f0", "canonical-helicity"), ("jpsi_3pi_rho", "helicity"), ("jpsi_ksp_sigma", "helicity"), ("jpsi_ksp_two", "helicity"),
    ("jpsi_ksp_sigma", "canonical-helicity"), ("lc_pkpi", "helicity"), ("d0_kskk", "helicity"), ("jpsi_4body", "helicity"), ("etac_lambdas", "canonical-helicity"),
]


def build_cases(chk, *, n_synth, configs, real, which, budget_s, spec_fn=None, reformulate=False, prehistory=False):
    """Yield (label, reaction, cfg, model, record)."""
    import ampform

    rng = random.Random(chk.seed * 7919 + 13)
    t0 = time.time()
    out = []
    rid = 0
    n_pre = [0]
    cases = []
    for name, formalism in real:
        cases.append((f"real:{name}:{formalism}", lambda n=name, f=formalism: ampl.real_reaction(n, f), None))
    tries = 0
    while sum(1 for c in cases if c[0].startswith("synth")) < n_synth and tries < n_synth * 4:
        tries += 1
        spec = (spec_fn or U.synth_spec)(rng)
        if spec is None:
            continue
        meta = spec["meta"]
        cases.append((f"synth:{meta['nfs']}:{spec['formalism']}:{meta['helset']}:ntop{meta.get('ntop', 1)}:{tries}", lambda s=spec: ampl.make_reaction(s), spec))
    for label, mk, spec in cases:
        if time.time() - t0 > budget_s:
            chk.note(f"time budget reached after {len(out)} models")
            break
        reaction = mk()
        base_reaction = reaction
        for cfg in configs(rng, base_reaction, label):
            reaction = base_reaction
            if str(cfg.get("alignment", "")).startswith("dpd"):
                from ampform.helicity.align.dpd import relabel_edge_ids

                reaction = relabel_edge_ids(base_reaction)
                if cfg.get("stable"):
                    cfg = {**cfg, "stable": {i + 1 for i in cfg["stable"]}}
            builder = ampform.get_builder(reaction)
            try:
                if prehistory and hasattr(builder.naming, "insert_parent_helicities") and len(out) % 2 == 1:
                    # every other model is the SECOND one of its builder: the first is formulated under the opposite
                    # insert_parent_helicities flag (under which no two chains share a coefficient), then the flag is
                    # set back - formulate() is a function of (reaction, configuration), so the law is owed all the same
                    builder.naming.insert_parent_helicities = not cfg.get("insert_parent_helicities")
                    builder.formulate()
                    builder.naming.insert_parent_helicities = bool(cfg.get("insert_parent_helicities"))
                    n_pre[0] += 1
                U.configure(builder, cfg)
                model = builder.formulate()
            except Exception as ex:  # noqa: BLE001
                out.append((label, reaction, cfg, None, {"error": f"{type(ex).__name__}: {ex}"}))
                continue
            aligned = bool(cfg.get("alignment"))
            plain = not cfg.get("couplings") and not cfg.get("dynamics")
            try:
                rec = U.model_record(
                    rid, reaction, model, aligned=aligned,
                    do_formula=("formula" in which) and plain, do_parity=("parity" in which) and plain, do_closure="closure" in which,
                )
            except ampl.AmpProjectionError as ex:
                chk.spec_drift(f"amplitude term shape not understood ({label}): {ex}")
                continue
            rec["label"] = label
            # (which chains share a coefficient depends on the child-helicity / LS flags of the name generator)
            rec["default_naming"] = int("insert_child_helicities" not in cfg and "insert_ls_combinations" not in cfg)
            rec["cfg"] = {k: (sorted(v) if isinstance(v, (set, frozenset)) else v) for k, v in cfg.items()}
            out.append((label, reaction, cfg, model, rec))
            rid += 1
            if reformulate:
                # the same builder, the same configuration, formulated again (history independence of closure)
                try:
                    model2 = builder.formulate()
                    rec2 = U.model_record(rid, reaction, model2, aligned=aligned, do_formula=False, do_parity=False, do_closure=True)
                except Exception as ex:  # noqa: BLE001
                    out.append((label + ":again", reaction, cfg, None, {"error": f"{type(ex).__name__}: {ex}"}))
                    continue
                rec2["label"] = label + ":again"
                rec2["cfg"] = rec["cfg"]
                out.append((label + ":again", reaction, cfg, model2, rec2))
                rid += 1
    if prehistory:
        chk.part("prehistory", models_formulated_after_a_formulate_under_the_opposite_parent_helicity_flag=n_pre[0])
    return out


def validate(chk, cases, name="trace_amplitude"):
    recs = []
    for label, reaction, cfg, model, rec in cases:
        if model is not None:
            r = dict(rec)
            r.pop("label", None)
            r["cfg"] = str(r.get("cfg"))
            recs.append(r)
    if not recs:
        raise Machinery("no model could be formulated")
    tv = trace.validate("Trace_Amplitude", recs, timeout=3000, heap="8g")
    chk.add_tlc(name, tv.res, traces=len(recs))
    drifts = [p for p in tv.res.prints if isinstance(p, tuple) and p and p[0] == "DRIFT"]
    return tv, drifts, {r["id"]: c for c, r in zip([c for c in cases if c[3] is not None], recs)}


UNIVERSE_CFG = """SPECIFICATION Spec
CONSTANTS
 MaxSpin2 = {maxspin2}
 LeafIds = {leafs}
 EtaValues <- {etas}
{invariants}CHECK_DEADLOCK FALSE
"""
UNIVERSE_INVARIANTS = "INVARIANT KeysSummed\nINVARIANT ChainsPartition\nINVARIANT PartnerSymmetric\nINVARIANT SignLawSatisfiable\nINVARIANT DOnShell\nINVARIANT NonEmpty\n"


def universe_cases(chk, *, stride, offset, which, maxspin2=2, etas="EtaGiven", name="universe", nfs=3, formalism="helicity"):
    """Every `stride`-th reaction (from `offset`) of the universe TLC enumerates for spec/Amplitude_MC.tla, formulated with the real
    builder: -> cases in the format of build_cases.  stride = 1: exhaustive within the constants."""
    import ampform

    from . import tlc

    res = tlc.run("Amplitude_MC", UNIVERSE_CFG.format(maxspin2=maxspin2, etas=etas, leafs="{" + ", ".join(map(str, range(nfs))) + "}", invariants="INVARIANT EmitDescriptor\n"), workers=1, timeout=1800)
    if not res.ok:
        raise Machinery(f"Amplitude_MC: {res.violated}")
    descs = [p[1] for p in res.prints if isinstance(p, tuple) and p and p[0] == "DESC"]
    if len(descs) < 100:
        raise Machinery(f"Amplitude_MC enumerated only {len(descs)} descriptors")
    # a stable order (TLC's print order is its own): by canonical text
    descs.sort(key=lambda d: (sorted(map(sorted, d["tree"])), sorted((sorted(k), v) for k, v in d["spin"].items()), sorted((sorted(k), v) for k, v in d["eta"].items())))
    chk.add_tlc(f"{name}_enumeration", res, traces=0)
    if formalism != "helicity":
        # no parity factors in the canonical basis: one descriptor per (tree, spins)
        seen, uniq = set(), []
        for d in descs:
            key = (tuple(sorted(map(tuple, map(sorted, d["tree"])))), tuple(sorted((tuple(sorted(k_)), v) for k_, v in d["spin"].items())))
            if key not in seen:
                seen.add(key)
                uniq.append(d)
        descs = uniq
    out = []
    idbase = 1_000_000 * nfs + (0 if formalism == "helicity" else 500_000)
    for k, d in enumerate(descs[offset::stride]):
        spec = U.descriptor_spec(d, formalism)
        if spec is None or len(spec["transitions"]) > 150:
            continue
        label = f"universe{nfs}:{k * stride + offset}"
        reaction = ampl.make_reaction(spec)
        try:
            model = ampform.get_builder(reaction).formulate()
        except Exception as ex:  # noqa: BLE001
            out.append((label, reaction, {}, None, {"error": f"{type(ex).__name__}: {ex}"}))
            continue
        try:
            rec = U.model_record(idbase + len(out), reaction, model, do_formula="formula" in which, do_parity="parity" in which, do_closure="closure" in which)
        except ampl.AmpProjectionError as ex:
            chk.spec_drift(f"amplitude term shape not understood ({label}): {ex}")
            continue
        rec["label"] = label
        rec["cfg"] = {}
        out.append((label, reaction, {}, model, rec))
    chk.part(name, descriptors_enumerated_by_TLC=len(descs), formulated=len(out), stride=stride, offset=offset, constants=f"{nfs} final states, spins <= {maxspin2}/2, eta in {etas}, {formalism}")
    return out
