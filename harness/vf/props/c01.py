"""C01 — every symbol of a model is defined: parameter xor kinematic variable.

Closure clauses are evaluated by TLC (Trace_Amplitude!ClosureClauses) on the symbol sets of
real models over the synthetic reaction universe x builder configurations; the
specification also predicts, from the abstract transitions, which amplitude symbols are
defined and which the intensity sums over (Amplitude!ExpectedKeys / SummedKeys)."""
from __future__ import annotations

import random

from .. import ampl, ampl_run, trace
from ..core import Machinery

LEVEL = "model_checking"
META = {
    "technique": "TLA+ closure invariants (Trace_Amplitude!ClosureClauses, Amplitude!ExpectedKeys/SummedKeys) checked by TLC on "
    "symbol-set projections of real HelicityModels over a synthetic reaction universe (incl. non-product helicity sets) "
    "x builder configurations (stable ids, scalar mass, couplings, three alignments, naming flags, permuted topologies, dynamics)",
    "text": "Closure (free symbols = parameters + kinematic variables, disjoint; summed amplitude symbols defined; kinematic "
    "variables depend on four-momenta only) is a set-level invariant that TLC evaluates on every model of a large "
    "generated configuration space; the specification additionally predicts the defined and summed amplitude keys from "
    "the transitions, so that the cause of a gap (product of observed projections vs existing transitions) is named.",
    "note": "Trusted: TLC; sympy free_symbols; the projection of symbols to name+assumption tags. Bounds: <=4 final states, "
    "spins <=5/2, configurations sampled (2-4 per reaction) from the alphabet, not all sequences.",
    "design_ref": "DESIGN.md §4 C01",
}


def configs(rng, reaction, label):
    nfs = len(reaction.final_state)
    ids = sorted(reaction.final_state)
    yield {}
    menu = []
    menu.append({"stable": set(ids)})
    menu.append({"stable": {ids[rng.randrange(nfs)]}})
    menu.append({"scalar_mass": 1})
    menu.append({"couplings": 1})
    menu.append({"stable": set(ids), "scalar_mass": 1, "dynamics": "bwff"})
    menu.append({"dynamics": "bw"})
    menu.append({"dynamics": "bwff", "stable": {ids[0]}})
    menu.append({"permutate": 1})
    menu.append({"insert_parent_helicities": 1, "insert_child_helicities": 0})
    menu.append({"alignment": "axis"})
    menu.append({"alignment": "axis", "stable": set(ids)})
    if nfs == 3 and len({tuple(sorted(t.topology.edges)) for t in reaction.transitions}) == 1:
        for ref in (1, 2, 3):
            menu.append({"alignment": f"dpd{ref}"})
        menu.append({"alignment": "dpd1", "stable": set(ids), "scalar_mass": 1})
    for cfg in rng.sample(menu, 3):
        yield cfg


def spec_source(tier):
    """random synthetic reactions, preceded by fixed shapes that random sampling reaches too rarely in the quick tier:
    topologies in which both children of a node decay further (four final states: (01)(23); five: four of the five shapes)"""
    from .. import ampl_universe as U

    fixed = [dict(nfs=4, shape="balanced", helset="full", maxspin2=2, ntop=1, formalism="helicity"),
             dict(nfs=4, shape="balanced", helset="restricted", maxspin2=2, ntop=1, formalism="canonical-helicity")]
    if tier == "thorough":
        fixed += [dict(nfs=5, shape="balanced", helset="restricted", maxspin2=2, ntop=1), dict(nfs=5, shape="balanced", helset="restricted", maxspin2=0, ntop=1),
                  dict(nfs=4, shape="balanced", helset="full", maxspin2=4, ntop=2)]
    state = {"n": 0}

    def fn(rng):
        i = state["n"]
        state["n"] += 1
        spec = U.synth_spec(rng, **fixed[i]) if i < len(fixed) else U.synth_spec(rng)
        if spec is not None and i % 3 == 1:
            spec["meta"]["reverse_nodes"] = True   # (every third reaction with its interaction nodes numbered from the last decay on)
        return spec

    return fn


def run(chk, replay=None):
    tier = chk.tier
    chk.assume("TLC/SANY", "sympy free_symbols / xreplace", "symbols compared as name + explicitly set assumptions")
    real = ampl_run.REAL_THOROUGH if tier == "thorough" else ampl_run.REAL_QUICK
    cases = ampl_run.build_cases(chk, n_synth=250 if tier == "thorough" else 22, configs=configs, real=real, which={"closure"}, budget_s=1000 if tier == "thorough" else 55, reformulate=True, spec_fn=spec_source(tier))
    cases = cases + ampl_run.universe_cases(chk, stride=3 if tier == "thorough" else 12, offset=8, which={"closure"})
    cases = cases + ampl_run.universe_cases(chk, stride=8 if tier == "thorough" else 80, offset=2, which={"closure"}, maxspin2=1, nfs=4, name="universe4")
    ok_cases = [c for c in cases if c[3] is not None]
    inadmissible = 0
    for label, reaction, cfg, model, rec in cases:
        if model is None:
            err = rec["error"]
            if "Angular momentum is not defined but is required in the form factor" in err:
                inadmissible += 1  # documented refusal: form factor for a half-integer-spin parent without L
                continue
            chk.violation(f"formulate-raises:{err.split(':')[0]}:{'+'.join(sorted(cfg)) or 'default'}", f"formulate() failed for {label} cfg={cfg}: {err[:400]}", {"label": label, "cfg": str(cfg)})
    tv, drifts, byid = ampl_run.validate(chk, cases)
    chk.count(len(ok_cases))
    for c in ok_cases:
        chk.nontrivial((ampl.digest(c[4]["trs"]), str(sorted(c[4]["cfg"].items()))))
    s = ok_cases[0][4]
    chk.sample({"label": s["label"], "cfg": s["cfg"], "closure": {k: (v if not isinstance(v, list) or len(v) < 12 else v[:12] + ["..."]) for k, v in s["closure"].items()}})
    chk.part("universe", models=len(ok_cases), inadmissible_configurations=inadmissible, closure_symbols=tv.stats.get("closure-symbols", 0),
             configs=sorted({"+".join(sorted(c[2])) or "default" for c in ok_cases}))
    if tv.stats.get("closure-symbols", 0) == 0:
        raise Machinery("vacuous: no symbols checked")
    for clause, rid, info in tv.rejects:
        label, reaction, cfg, model, rec = byid[rid]
        cfgkey = "+".join(sorted(cfg)) or "default"
        if clause == "every-summed-amplitude-is-defined":
            # name the cause: is the missing tuple one no transition has (product of observed projections)?
            outer = {tuple(h) for h in ([e["hel2"] for e in sorted(t["edges"], key=lambda e: (len(e["set"]) != max(len(x["set"]) for x in t["edges"]), e["set"])) if len(e["set"]) in (1, max(len(x["set"]) for x in t["edges"]))] for t in rec["trs"])}
            sig = f"intensity-sums-over-undefined-amplitude:{'aligned' if rec['aligned'] else 'unaligned'}"
        else:
            sig = f"{clause}:{cfgkey}"
        chk.violation(sig, f"{clause} for {label} cfg={rec['cfg']}: {str(info)[:600]}", {"label": label, "cfg": rec["cfg"], "closure": rec["closure"]})
    for d in drifts:
        chk.spec_drift(f"{d[1]} for {byid[d[2]][0] if d[2] in byid else d[2]}")
    import copy

    bad = copy.deepcopy(ok_cases[0][4])
    bad.pop("label", None)
    bad["cfg"] = ""
    bad["id"] = 987655
    bad["closure"]["params"] = bad["closure"]["params"][1:]
    tvb = trace.validate("Trace_Amplitude", [bad])
    if not tvb.rejects:
        raise Machinery("binding demonstration failed: a removed parameter was not noticed")
    chk.part("binding_demo", corrupted="closure.params[0] removed", rejected_by=sorted({r[0] for r in tvb.rejects}))
    chk.cov["rule"] = ("cases = (reaction, builder configuration): synthetic reactions (2..4 final states, spins<=5/2, full/restricted/non-product "
                       "helicity sets, both formalisms) and real qrules reactions x default + 3 configurations sampled from "
                       "{stable ids, scalar mass, couplings, dynamics bw/bwff, permutate, naming flags, axis-angle, DPD ref 1-3}; distinct = distinct (transitions, configuration)")
