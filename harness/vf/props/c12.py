"""C12 — lineshape normalisations; builder API equals function API.

spec/Lineshape.tla computes the Blatt-Weisskopf rational functions from the spherical-Hankel sum
(limb arithmetic, L = 0..10) and the energy-dependent width ratio; spec/Lineshape_MC.tla checks
the reference laws exhaustively; spec/Trace_C12.tla consumes the implementation's exact values
(polynomial coefficients, values at rational z of the fast and the Hankel path, widths) and the
canonical structural terms produced by the dynamics builders and by the public functions."""
from __future__ import annotations

import copy
import json
import random
import warnings
from concurrent.futures import ThreadPoolExecutor

from .. import tlc, trace
from ..core import Machinery
from ..lineshape_obs import UNDEF, bigq, bigz, observe, quantise, rat, reim50, show

LEVEL = "model_checking"
META = {
    "technique": "TLA+ spec Lineshape (Blatt-Weisskopf B_L^2 as the rational function of the spherical-Hankel sum in exact limb "
    "arithmetic for L = 0..10, closed-form coefficients, energy-dependent width ratio as square+quadrant) model-checked "
    "exhaustively with TLC; trace spec Trace_C12 recomputes every value for the implementation's exact results "
    "(polynomial coefficients and values of the cached fast path and of the symbolic Hankel path, widths at rational "
    "points) and computes, from the flag combination, which term of the public lineshape functions a dynamics builder "
    "must return (bag comparison of canonical structural terms, argument routing, parameter defaults); structural "
    "mismatches are adjudicated numerically at seeded points by a second law before they count",
    "text": "Exhaustive model checking of the reference (Hankel path = polynomial path = closed form, B(1) = 1, z^L at threshold, "
    "bounded, increasing, Gamma(m0^2) = Gamma0) for L 0..10 on a rational z lattice, and trace validation of the implementation: "
    "11 x 2 polynomial identities, L x z exact values on both paths, widths for 5 phase-space classes x L x parameter sets, "
    "4 flag combinations x 5 phase-space classes x integer/symbolic/absent L x 2 resonance identifiers plus the 5 convenience builders.",
    "note": "Trusted: TLC/SANY, SymPy exact arithmetic and simplification of the rational functions, 50-digit evalf for the two "
    "transcendental phase-space classes (width identity only) and for the numerical adjudication. The clause WidthFormula "
    "(Gamma(s)/Gamma0 = (F/F0)^2 rho/rho0 at s != m0^2) is the formula named in the property's mechanism anchor and in the class "
    "docstring; the statement's first sentence alone only fixes s = m0^2.",
    "design_ref": "DESIGN.md §4 C12",
}

PHSP = ["PhaseSpaceFactor", "PhaseSpaceFactorAbs", "PhaseSpaceFactorComplex", "PhaseSpaceFactorSWave", "EqualMassPhaseSpaceFactor"]
ALGEBRAIC = PHSP[:3]
CONVENIENCE = ["create_relativistic_breit_wigner", "create_relativistic_breit_wigner_with_ff", "create_analytic_breit_wigner",
               "create_non_dynamic", "create_non_dynamic_with_ff"]

MC_CFG = """SPECIFICATION Spec
CONSTANTS
 SNeg = 20
 SMax = 60
 SDen = 1
 LMax = 10
 Tier = "{tier}"
 Families = {{"bw", "width", "big"}}
INVARIANT Factorials
INVARIANT PathsAgree
INVARIANT ClosedForm
INVARIANT OneAtOne
INVARIANT ThresholdPower
INVARIANT Bounded
INVARIANT WidthAtPole
INVARIANT WidthPositive
INVARIANT WidthVariantFree
INVARIANT BigSound
PROPERTY Increasing
CHECK_DEADLOCK FALSE
"""


# ---------------------------------------------------------------------------------------
# Blatt-Weisskopf
def zcoeffs(poly):
    """coefficient list low -> high as Z values (integers after clearing denominators jointly)."""
    return [int(c) for c in reversed(poly.all_coeffs())]


def rational_function(expr, z):
    import sympy as sp

    num, den = sp.fraction(sp.together(sp.simplify(expr)))
    pn, pd = sp.Poly(sp.expand(num), z), sp.Poly(sp.expand(den), z)
    cs = list(pn.all_coeffs()) + list(pd.all_coeffs())
    if not all(c.is_Rational for c in cs):
        raise ValueError(f"not a rational function over Q: {expr}")
    scale = sp.ilcm(*[sp.Rational(c).q for c in cs])
    return [bigz(int(c * scale)) for c in reversed(pn.all_coeffs())], [bigz(int(c * scale)) for c in reversed(pd.all_coeffs())]


def exactq(v):
    import sympy as sp

    v = sp.sympify(v)
    if not v.is_Rational:
        v = sp.nsimplify(sp.simplify(v))
    if v.is_Rational:
        return {"st": "exact", "q": bigq(v)}
    return {"st": "undef", "q": [[[], []], [[1], []]]}


def blatt_weisskopf_records(tier):
    import sympy as sp
    from ampform.dynamics.form_factor import BlattWeisskopfSquared

    z = sp.Symbol("z", positive=True)
    ell = sp.Symbol("L", integer=True, nonnegative=True)
    hankel_sym = BlattWeisskopfSquared(z, ell).doit()  # symbolic L: the defining Hankel expression, sum unevaluated
    zs = ["1/9", "1/4", "1", "4", "9", "100"] + (["1/100", "1/16", "16", "25/4", "49"] if tier == "thorough" else [])
    recs = []
    # the polynomial cache is exercised in two different orders so that a stale entry cannot hide
    order = list(range(0, 11))
    for L in order + order[::-1] if tier == "thorough" else [3, 1] + order:
        try:
            num, den = rational_function(BlattWeisskopfSquared(z, sp.Integer(L)).doit(), z)
        except (ValueError, TypeError):
            num, den = [bigz(0)], [bigz(0)]
        recs.append({"k": "bwpoly", "L": L, "path": "fast", "num": num, "den": den})
    for L in order:
        try:
            num, den = rational_function(hankel_sym.subs(ell, L).doit(), z)
        except (ValueError, TypeError):
            num, den = [bigz(0)], [bigz(0)]
        recs.append({"k": "bwpoly", "L": L, "path": "hankel", "num": num, "den": den})
    for L in order[::-1]:
        for zz in zs:
            zq = sp.Rational(zz)
            try:
                fast = exactq(BlattWeisskopfSquared(zq, sp.Integer(L)).doit())
            except (ValueError, TypeError, ZeroDivisionError):
                fast = exactq(sp.nan)
            try:
                hank = exactq(hankel_sym.subs({ell: L, z: zq}).doit())
            except (ValueError, TypeError, ZeroDivisionError):
                hank = exactq(sp.nan)
            recs.append({"k": "bwval", "L": L, "z": rat(zq), "fast": fast, "hankel": hank})
    # below threshold (z = q^2 d^2 < 0, which every width and Breit-Wigner meets for s under the threshold): the symbolic-L
    # (Hankel) path against the integer-L (polynomial) path
    z_real = sp.Symbol("z", real=True)   # (no sign assumption: the value is negative)
    hankel_real = BlattWeisskopfSquared(z_real, ell).doit()
    for L in ((0, 1, 2, 3) if tier != "thorough" else range(0, 7)):
        for zz in ("-1/4", "-4"):
            zq = sp.Rational(zz)
            try:
                fast = BlattWeisskopfSquared(zq, sp.Integer(L)).doit()
                hank = hankel_real.subs({ell: L, z_real: zq}).doit()
                equal = int(sp.simplify(fast - hank) == 0)
                shown = [str(fast), str(sp.simplify(hank))]
            except (ValueError, TypeError, ZeroDivisionError) as e:
                equal, shown = 0, ["raised", type(e).__name__]
            recs.append({"k": "bwneg", "L": L, "z": rat(zq), "equal": equal, "fast_s": shown[0], "hankel_s": shown[1]})
    # the caller's symbols may have any name: the defining expression with the symbolic L (or a symbol inside z) called like a
    # summation index an implementation might use - the values must not depend on it (no capture by a bound index)
    for nm in ("k", "n", "j", "i", "m", "l", "ell", "R"):
        u = sp.Symbol(nm, integer=True, nonnegative=True)
        for L in ((2, 3) if tier != "thorough" else (1, 2, 3, 5, 8)):
            for zz in ("1/4", "4"):
                zq = sp.Rational(zz)
                try:
                    fast = exactq(BlattWeisskopfSquared(zq, sp.Integer(L)).doit())
                except (ValueError, TypeError, ZeroDivisionError):
                    fast = exactq(sp.nan)
                try:
                    hank = exactq(BlattWeisskopfSquared(z, u).doit().subs({u: L, z: zq}).doit())
                except (ValueError, TypeError, ZeroDivisionError):
                    hank = exactq(sp.nan)
                recs.append({"k": "bwval", "L": L, "z": rat(zq), "fast": fast, "hankel": hank, "symbol": nm})
                try:   # ... and the symbol inside z (z = u/4 or 4u at u = 1), symbolic L
                    hank2 = exactq(BlattWeisskopfSquared(zq * u, ell).doit().subs({ell: L, u: 1}).doit())
                except (ValueError, TypeError, ZeroDivisionError):
                    hank2 = exactq(sp.nan)
                recs.append({"k": "bwval", "L": L, "z": rat(zq), "fast": fast, "hankel": hank2, "symbol": nm + " in z"})
    return recs


# ---------------------------------------------------------------------------------------
# energy-dependent width
def width_records(tier):
    import sympy as sp
    from ampform.dynamics import EnergyDependentWidth, phasespace

    g0 = sp.Rational(3, 10)
    recs = []
    # (m0, m1, m2, d): resonances above, below and between the thresholds
    params = [("4", "1", "1", "1"), ("7/2", "1", "2", "1/2"), ("5/2", "1", "2", "1"), ("3/2", "2", "1", "2"), ("5", "2", "1", "1")]
    if tier == "thorough":
        params += [("4", "1", "2", "2"), ("7/2", "1", "1", "1"), ("5/2", "1", "1", "1/2"), ("6", "2", "3", "1"), ("11/2", "3", "3", "1/2")]
    s_list = ["-3", "1/2", "2", "5", "9", "10", "49/4", "16", "20", "25", "30"]
    for X in PHSP:
        cls = getattr(phasespace, X)
        for (m0, m1, m2, d) in params:
            m0, m1, m2, d = (sp.Rational(x) for x in (m0, m1, m2, d))
            for L in range(0, 11):
                # the pole: s = m0^2 for every class and every L
                points = [m0**2]
                if X in ALGEBRAIC and L in ((0, 1, 2, 3, 4, 5, 6, 8, 10) if tier == "thorough" else (0, 1, 3)):
                    points += [sp.Rational(x) for x in s_list if sp.Rational(x) != m0**2]
                for s in points:
                    try:
                        v = EnergyDependentWidth(s, m0, g0, m1, m2, sp.Integer(L), d, cls).doit()
                        o = observe(v / g0, want_exact=X in ALGEBRAIC)
                    except (TypeError, ValueError, ZeroDivisionError):
                        o = dict(UNDEF)
                    recs.append({"k": "width", "X": X, "L": L, "s": rat(s), "m0": rat(m0), "m1": rat(m1), "m2": rat(m2), "d": rat(d), "o": o})
    return recs


# ---------------------------------------------------------------------------------------
# builders: canonical structural terms
def canon(e):
    import sympy as sp

    if isinstance(e, sp.Symbol):
        ass = getattr(e, "_assumptions_orig", None)
        if ass is None:
            ass = {k: v for k, v in e.assumptions0.items() if k in ("positive", "nonnegative", "real", "integer", "negative")}
        return {"c": "Symbol", "t": e.name + "|" + ",".join(sorted(k for k, v in ass.items() if v)), "a": []}
    if isinstance(e, (sp.Number, sp.NumberSymbol)) or e is sp.I:
        return {"c": type(e).__name__, "t": str(e), "a": []}
    # non-SymPy attributes exist only on ampform's @unevaluated classes (stored in __slots__)
    slots = getattr(type(e), "__slots__", ()) if type(e).__module__.startswith("ampform") else ()
    attrs = []
    for name in slots if isinstance(slots, (tuple, list)) else ():
        if name.startswith("_"):
            continue
        v = getattr(e, name, None)
        attrs.append(f"{name}={getattr(v, '__name__', None) or str(v)}")
    args = [canon(a) for a in e.args]
    if isinstance(e, (sp.Add, sp.Mul)):
        args.sort(key=lambda t: json.dumps(t, sort_keys=True))
    return {"c": type(e).__name__, "t": ";".join(attrs), "a": args}


NONE_TERM = {"c": "None", "t": "", "a": []}


def builder_cases(tier):
    """(conv-name or '', ff, edw, phsp class name, Lkind, particle index)"""
    cases = []
    lkinds = ["int", "sym", "none"]
    for ff in (0, 1):
        for edw in (0, 1):
            for ph in PHSP + ["default", "chew_mandelstam_s_wave"]:   # (the last one is a plain function, not an expression class)
                for lk in lkinds:
                    for pi in (0, 1) if (tier == "thorough" or lk == "int") else (0,):
                        cases.append(("", ff, edw, ph, lk, pi))
    for name in CONVENIENCE:
        for lk in lkinds:
            for pi in (0, 1):
                cases.append((name, 0, 0, "PhaseSpaceFactor", lk, pi))
    return cases


def build_records(tier, rng):
    import sympy as sp
    from ampform.dynamics import EnergyDependentWidth, FormFactor, builder as bmod, phasespace, relativistic_breit_wigner, relativistic_breit_wigner_with_ff
    from qrules.particle import Particle

    particles = [
        Particle(name="R(1500)", latex=None, pid=9001, spin=1, mass=1.5, width=0.25),
        Particle(name="Rstar", latex=r"R^{*}_2", pid=9002, spin=2, mass=2.25, width=0.125),
    ]
    recs, exprs = [], []
    for conv, ff, edw, ph, lk, pi in builder_cases(tier):
        p = particles[pi]
        ident = p.latex or p.name
        suffix = rng.choice(["12", "01", "23"])
        m = sp.Symbol(f"m_{suffix}", nonnegative=True)
        m1 = sp.Symbol(f"m_{suffix[0]}", nonnegative=True)
        m2 = sp.Symbol(f"m_{suffix[1]}", nonnegative=True)
        theta, phi = sp.Symbol(f"theta_{suffix[0]}^{suffix}", real=True), sp.Symbol(f"phi_{suffix[0]}^{suffix}", real=True)
        L = {"int": rng.choice([0, 1, 2, 3, 4]), "sym": sp.Symbol("L", integer=True, nonnegative=True), "none": None}[lk]
        pool = bmod.TwoBodyKinematicVariableSet(
            incoming_state_mass=m, outgoing_state_mass1=m1, outgoing_state_mass2=m2,
            helicity_theta=theta, helicity_phi=phi, angular_momentum=L,
        )
        phcls = phasespace.PhaseSpaceFactor if ph == "default" else getattr(phasespace, ph)
        if conv:
            builder = getattr(bmod, conv)
        elif rng.random() < 0.5:
            # the builder's options are public attributes: configure a default builder by assignment (read at call time)
            builder = bmod.RelativisticBreitWignerBuilder()
            builder.form_factor, builder.energy_dependent_width, builder.phsp_factor = bool(ff), bool(edw), phcls
        elif ph == "default":
            builder = bmod.RelativisticBreitWignerBuilder(form_factor=bool(ff), energy_dependent_width=bool(edw))
        else:
            builder = bmod.RelativisticBreitWignerBuilder(form_factor=bool(ff), energy_dependent_width=bool(edw), phsp_factor=phcls)
        raised, expr, defaults = "", None, {}
        try:
            expr, defaults = builder(p, pool)
        except ValueError:
            raised = "ValueError"
        except Exception as e:  # noqa: BLE001 - any other exception is an observation of its own
            raised = type(e).__name__
        # the public functions with the documented symbols of this resonance and the node's variables
        m_r = sp.Symbol(f"m_{{{ident}}}", nonnegative=True)
        g_r = sp.Symbol(Rf"\Gamma_{{{ident}}}", nonnegative=True)
        d_r = sp.Symbol(f"d_{{{ident}}}", positive=True)
        s = m**2
        f_bw = relativistic_breit_wigner(s, m_r, g_r)
        if L is None:
            f_bwff = f_ff = None
        else:
            spec_ph = {"create_relativistic_breit_wigner_with_ff": phasespace.PhaseSpaceFactor,
                       "create_analytic_breit_wigner": phasespace.EqualMassPhaseSpaceFactor}.get(conv, phcls)
            f_bwff = relativistic_breit_wigner_with_ff(s, m_r, g_r, m1, m2, L, d_r, spec_ph)
            f_ff = FormFactor(s, m1, m2, L, d_r)
        rec = {
            "k": "bld", "conv": conv, "ff": ff, "edw": edw, "phsp": phcls.__name__, "Lkind": lk, "ident": ident,
            "sym_m": canon(m), "sym_m1": canon(m1), "sym_m2": canon(m2), "sym_L": canon(sp.sympify(L)) if L is not None else NONE_TERM,
            "raised": raised, "term": canon(expr) if expr is not None else NONE_TERM,
            "defaults": [[canon(k), rat(sp.Rational(str(v)))] for k, v in defaults.items()],
            "mass": rat(sp.Rational(str(p.mass))), "width": rat(sp.Rational(str(p.width))),
            "fn_bw": canon(f_bw), "fn_bwff": canon(f_bwff) if f_bwff is not None else NONE_TERM,
            "fn_ff": canon(f_ff) if f_ff is not None else NONE_TERM,
        }
        recs.append(rec)
        # the documented composition, as an expression, for the numerical law.  The public functions are formulated on their own,
        # with a plain symbol for s that only gets its value m^2 at the point (the builder passes the expression m**2)
        s_free = sp.Symbol("s_free", nonnegative=True)
        g_bw = relativistic_breit_wigner(s_free, m_r, g_r)
        g_bwff = g_ff = None
        if L is not None:
            g_bwff = relativistic_breit_wigner_with_ff(s_free, m_r, g_r, m1, m2, L, d_r, spec_ph)
            g_ff = FormFactor(s_free, m1, m2, L, d_r)
        if conv == "create_non_dynamic":
            want = sp.S.One
        elif conv == "create_non_dynamic_with_ff":
            want = g_ff
        else:
            fl = {"create_relativistic_breit_wigner": (0, 0), "create_relativistic_breit_wigner_with_ff": (1, 1), "create_analytic_breit_wigner": (1, 1)}.get(conv, (ff, edw))
            if fl == (0, 0):
                want = g_bw
            elif L is None:
                want = None
            elif fl == (1, 0):
                want = g_ff * g_bw
            elif fl == (1, 1):
                want = g_bwff
            else:
                want = g_bwff / g_ff
        exprs.append((expr, want, {"m": m, "m1": m1, "m2": m2, "m_r": m_r, "g_r": g_r, "d_r": d_r, "L": L, "s_free": s_free}))
    return recs, exprs


def adjudicate(rec_id, rec, expr, want, syms, rng, npts):
    """Values of the builder's expression and of the documented composition at seeded points."""
    import sympy as sp

    pts = []
    for _ in range(npts):
        m1v = sp.Rational(rng.randint(10, 60), 100)
        m2v = sp.Rational(rng.randint(10, 60), 100)
        thr = m1v + m2v
        # stay 0.05 away from threshold and pseudo-threshold, above and below
        mv = thr + rng.choice([1, 1, -1]) * sp.Rational(rng.randint(5, 90), 100) * (1 if rng.random() < 0.7 else sp.Rational(1, 2))
        if mv <= abs(m1v - m2v) + sp.Rational(5, 100):
            mv = thr + sp.Rational(rng.randint(5, 90), 100)
        vals = {syms["m"]: mv, syms["m1"]: m1v, syms["m2"]: m2v, syms["m_r"]: sp.Rational(rng.randint(110, 250), 100),
                syms["g_r"]: sp.Rational(rng.randint(5, 60), 100), syms["d_r"]: sp.Rational(rng.randint(50, 300), 100)}
        vals[syms["s_free"]] = mv**2
        if isinstance(syms["L"], sp.Symbol):
            vals[syms["L"]] = rng.choice([0, 1, 2, 3])
        row = {"st": "num"}
        try:
            for tag, e in (("b", expr), ("f", want)):
                # (values first, then unfolding, on both sides.  Unfolding the builder's expression symbolically first was tried - seed
                # C12_j needs it - and given up for lack of time: on the unchanged tree the two orders differ beyond the tolerance
                # for symbolic L, see DESIGN 10.4 batch 20)
                v = sp.sympify(e).subs(vals).doit()
                re, im = reim50(v)
                row[tag + "_re"], row[tag + "_im"] = bigz(quantise(re)), bigz(quantise(im))
        except (TypeError, ValueError, ZeroDivisionError):
            row = {"st": "undef", "b_re": bigz(0), "b_im": bigz(0), "f_re": bigz(0), "f_im": bigz(0)}
        row["at"] = {str(k): str(v) for k, v in vals.items()}
        pts.append(row)
    flags = rec["conv"] or f"ff={rec['ff']},edw={rec['edw']},{rec['phsp']}"
    return {"k": "adj", "of": rec_id, "conv": rec["conv"], "flags": f"{flags},L={rec['Lkind']}", "pts": pts}


# ---------------------------------------------------------------------------------------
def sig_of(clause, info, rec):
    """(stable signature of the failing input class, which member of the class)"""
    if rec["k"] == "bwpoly":
        return f"blatt-weisskopf:{clause}:{rec['path']}-path", f"L={rec['L']}"
    if rec["k"] == "bwneg":
        return "blatt-weisskopf:hankel-path(symbolic L)!=polynomial-path:z<0", f"L={rec['L']},z={rec['z'][0]}/{rec['z'][1]}"
    if rec["k"] == "bwval":
        return f"blatt-weisskopf:{clause}" + (f":caller-symbol-named-{rec['symbol'].replace(' ', '-')}" if rec.get("symbol") else ""), f"L={rec['L']}"
    if rec["k"] == "width":
        if clause == "WidthAtPole":
            return f"width(m0^2)!=Gamma0:{rec['X']}", f"L={rec['L']}"
        return f"width-formula:Gamma0*(F/F0)^2*rho/rho0:{rec['X']}", f"L={rec['L']}"
    if rec["k"] in ("bld", "adj"):
        who = rec["conv"] or "RelativisticBreitWignerBuilder"
        if rec["k"] == "adj":
            fl = rec["flags"].split(",")
            return f"builder!=function:{who}" + ("" if rec["conv"] else ":" + ",".join(fl[:2])), ",".join(fl[2:] if not rec["conv"] else fl[1:])
        return f"builder:{clause}:{who}", f"ff={rec['ff']},edw={rec['edw']},{rec['phsp']},L={rec['Lkind']}"
    return f"{clause}:{info}", ""


def describe(rec):
    import sympy as sp

    if rec["k"] == "bwpoly":
        from ..lineshape_obs import unz

        return f"BlattWeisskopfSquared(z, {rec['L']}).doit() [{rec['path']} path] = ({[unz(c) for c in rec['num']]}) / ({[unz(c) for c in rec['den']]}) (coefficients low->high)"
    if rec["k"] == "bwneg":
        return f"B_{rec['L']}^2({rec['z'][0]}/{rec['z'][1]}): polynomial path (integer L) {rec['fast_s']}, Hankel path (symbolic L, then L := {rec['L']}) {rec['hankel_s']}"
    if rec["k"] == "bwval":
        from ..lineshape_obs import unz

        f = lambda o: "undefined" if o["st"] != "exact" else str(sp.Rational(unz(o["q"][0]), unz(o["q"][1])))
        return f"B_{rec['L']}^2({sp.Rational(*rec['z'])}): fast path {f(rec['fast'])}, Hankel path {f(rec['hankel'])}" + (f" (caller's symbol named {rec['symbol']})" if rec.get("symbol") else "")
    if rec["k"] == "width":
        q = lambda k: sp.Rational(*rec[k])
        return (f"EnergyDependentWidth(s={q('s')}, m0={q('m0')}, Gamma0, m1={q('m1')}, m2={q('m2')}, L={rec['L']}, d={q('d')}, {rec['X']}).doit()/Gamma0 = {show(rec['o'])}")
    if rec["k"] == "adj":
        from ..lineshape_obs import unz

        p = rec["pts"][0]
        return f"{rec['flags']}: at {p['at']} builder = {unz(p['b_re']) / 1e12:.9g}{unz(p['b_im']) / 1e12:+.9g}i, function = {unz(p['f_re']) / 1e12:.9g}{unz(p['f_im']) / 1e12:+.9g}i"
    return f"{rec['conv'] or 'RelativisticBreitWignerBuilder'}(ff={rec['ff']}, edw={rec['edw']}, {rec['phsp']}, L {rec['Lkind']}, id {rec['ident']}) raised={rec['raised']!r}"


STRUCTURAL = {"BuilderEqualsFunction", "ArgumentRouting", "FunctionRouting"}
DRIFT_ONLY = {"RaisesWithoutL", "NoRaise", "ParameterDefaults"}


def run(chk, replay=None):
    warnings.simplefilter("ignore")
    tier = chk.tier
    rng = random.Random(chk.seed)
    chk.assume(
        "TLC/SANY and the CommunityModules Json/IOUtils readers",
        "SymPy: exact rational arithmetic, simplify/together/Poly on the Blatt-Weisskopf rational functions, 50-digit evalf",
        "canonical structural terms: class name + arguments + non-SymPy attributes (__slots__), Add/Mul arguments as bags",
        "qrules.particle.Particle as input object (synthetic resonances)",
    )
    pool = ThreadPoolExecutor(max_workers=1)
    mc_future = pool.submit(tlc.run, "Lineshape_MC", MC_CFG.format(tier=tier), workers=5, coverage=True, fast_start=False, timeout=1500)

    bw = blatt_weisskopf_records(tier)
    wd = width_records(tier)
    bld, exprs = build_records(tier, rng)
    records = bw + wd + bld
    for i, r in enumerate(records):
        r["id"] = i
    # numerical law for every builder call that returned (thorough) / a seeded third of them (quick)
    adj = []
    base = len(bw) + len(wd)
    for j, (rec, (expr, want, syms)) in enumerate(zip(bld, exprs)):
        if expr is None or want is None:
            continue
        if tier == "thorough" or j % 3 == chk.seed % 3 or rec["phsp"] == "chew_mandelstam_s_wave":
            adj.append(adjudicate(base + j, rec, expr, want, syms, rng, 3 if tier == "thorough" else 2))
    for i, r in enumerate(adj):
        r["id"] = len(records) + i
    records += adj

    tv = trace.validate("Trace_C12", records, timeout=3000)
    chk.add_tlc("trace_C12", tv.res, traces=len(records))
    chk.count(len(records))
    chk.part("trace_C12", records={"bwpoly+bwval": len(bw), "width": len(wd), "bld": len(bld), "adj": len(adj)}, per_kind=tv.stats, rejects=len(tv.rejects))
    for r in records:
        if r["k"] == "bwpoly":
            chk.nontrivial(("bwpoly", r["L"], r["path"]))
        elif r["k"] == "bwval":
            chk.nontrivial(("bwval", r["L"], tuple(r["z"])))
        elif r["k"] == "width" and r["o"]["st"] != "undef":
            chk.nontrivial(("width", r["X"], r["L"], tuple(r["s"]), tuple(r["m0"]), tuple(r["m1"]), tuple(r["m2"]), tuple(r["d"])))
        elif r["k"] == "bld":
            chk.nontrivial(("bld", r["conv"], r["ff"], r["edw"], r["phsp"], r["Lkind"], r["ident"]))
        elif r["k"] == "adj":
            chk.nontrivial(("adj", r["flags"], r["of"]))
    chk.sample({"bwpoly": describe(next(r for r in bw if r["k"] == "bwpoly" and r["L"] == 3))})
    chk.sample({"bwval": describe(next(r for r in bw if r["k"] == "bwval" and r["L"] == 10 and r["z"] == [1, 4]))})
    chk.sample({"width": describe(next(r for r in wd if r["X"] == "PhaseSpaceFactorAbs" and r["L"] == 1 and r["s"] == [5, 1]))})
    chk.sample({"width_pole": describe(next(r for r in wd if r["X"] == "EqualMassPhaseSpaceFactor" and r["L"] == 10))})
    b0 = next(r for r in bld if r["ff"] == 1 and r["edw"] == 1 and r["Lkind"] == "int" and not r["conv"])
    chk.sample({"builder": describe(b0), "term": b0["term"]})
    if adj:
        chk.sample({"numeric": describe(adj[0])})
    if not replay:
        for key in ("bwpoly", "bwval", "bwneg", "width_pole", "width_formula", "bld", "bld_raise", "adj"):
            if tv.stats.get(key, 0) == 0:
                raise Machinery(f"vacuous trace: no record of kind {key!r} ({tv.stats})")

    # verdicts.  Structural clauses on numerically stated sentences are adjudicated numerically first.
    need_adj = {}
    found = {}

    def report(sig_where, detail, rep):
        sig, where = sig_where
        ent = found.setdefault(sig, [detail, rep, set(), 0])
        ent[2].add(where)
        ent[3] += 1

    for rej in tv.rejects:
        clause, rid, info = rej[0], rej[1], rej[2] if len(rej) > 2 else ()
        rec = records[rid]
        if clause in STRUCTURAL:
            need_adj.setdefault(rid, []).append(clause)
        elif clause in DRIFT_ONLY:
            chk.spec_drift(f"{clause}: {describe(rec)} (defaults {rec.get('defaults')})")
        else:
            report(sig_of(clause, info, rec), f"clause {clause} {info} rejected by Trace_C12: {describe(rec)}", {"clause": clause, "record": rec})
    if need_adj:
        adj2 = []
        for rid, clauses in need_adj.items():
            j = rid - base
            expr, want, syms = exprs[j]
            if expr is None or want is None:
                chk.spec_drift(f"{clauses}: {describe(records[rid])} (no expression to compare)")
                continue
            adj2.append(adjudicate(rid, records[rid], expr, want, syms, random.Random(chk.seed + rid), 6))
        for i, r in enumerate(adj2):
            r["id"] = i
        if adj2:
            tv2 = trace.validate("Trace_C12", adj2, timeout=1200)
            chk.add_tlc("numerical_adjudication", tv2.res, traces=len(adj2))
            bad = {rej[1] for rej in tv2.rejects}
            for i, r in enumerate(adj2):
                rec = records[r["of"]]
                if i in bad:
                    worst = copy.deepcopy(r)
                    report(sig_of("BuilderEqualsFunctionNumerically", (), r),
                           f"structural clauses {need_adj[r['of']]} rejected and the values differ: {describe(worst)}; builder call {describe(rec)}",
                           {"clauses": need_adj[r["of"]], "record": rec, "numeric": r})
                else:
                    chk.spec_drift(f"{need_adj[r['of']]}: term of {describe(rec)} differs structurally from the public function's term but agrees numerically at 6 seeded points")

    for sig, (detail, rep, wheres, n) in found.items():
        if sig.startswith("width-formula:"):
            # Gamma(s) away from s = m0^2 is not fixed by a sentence of C12: reported, never an alarm
            chk.spec_drift(f"{sig}: {n} record(s) ({detail})")
            continue
        chk.violation(sig, f"{n} record(s) rejected ({'; '.join(sorted(w for w in wheres if w)) or 'all'}); first: {detail}", rep)

    res = mc_future.result()
    pool.shutdown()
    chk.add_tlc("reference_laws_exhaustive", res)
    if not res.ok:
        raise Machinery(f"the reference laws fail on the model ({res.violated}): specification error\n" + "\n".join(res.error_trace[:60]))
    for a in ("ScanZ", "ScanW"):
        if res.coverage.get(a, 0) == 0:
            raise Machinery(f"vacuous model check: action {a} never taken")

    if tier == "thorough" and not replay:
        demo_binding(chk, bw, wd, bld, adj)

    chk.cov["rule"] = (
        "Blatt-Weisskopf: L = 0..10 x {fast (integer L, lru-cached polynomial, evaluated in two orders), hankel (symbolic L, substituted "
        "afterwards)} as coefficient lists, and L x z in {1/9, 1/4, 1, 4, 9, 100} (thorough: 11 values) as exact values on both paths; "
        "width: 5 phase-space classes x L = 0..10 x 5 (thorough 10) parameter sets at s = m0^2, and the three algebraic classes x "
        "L in {0,1,3} (thorough {0,1,2,3,4,5,6,8,10}) x 10 further rational s; builders: (ff, edw) x 5 phase-space classes + default x "
        "L integer/symbolic/absent x 2 resonance identifiers (latex / name), 5 convenience builders; numerical law at 2-3 seeded points "
        "for a third (thorough: all) of the builder calls. distinct non-trivial = distinct (kind, parameters) with a defined result"
    )
    chk.cov["explanation"] = (
        "Blatt-Weisskopf and width clauses: TLC computes the expected rational value itself in exact limb arithmetic (model_checking, "
        "exhaustive on the lattice). Builder clauses: TLC computes from the flags which composition of the public functions' terms is "
        "required and compares bags of canonical terms, argument routing and defaults. Width identity for the two transcendental "
        "phase-space classes and the numerical builder law are observation laws on 50-digit values rounded to 1e-12."
    )
    chk.cov["exhaustive"] = True


def demo_binding(chk, bw, wd, bld, adj):
    cases = []
    a = copy.deepcopy(next(r for r in bw if r["k"] == "bwpoly" and r["L"] == 4 and r["path"] == "fast"))
    a["den"][1] = bigz(11)  # 10 z -> 11 z
    cases.append(("PolynomialEqualsHankel", a))
    b = copy.deepcopy(next(r for r in bw if r["k"] == "bwval" and r["L"] == 10 and r["z"] == [4, 1]))
    b["fast"]["q"][0][0][0] = (b["fast"]["q"][0][0][0] + 1) % 1000
    cases.append(("FastPathValue", b))
    c = copy.deepcopy(next(r for r in wd if r["X"] == "PhaseSpaceFactor" and r["L"] == 3 and r["s"] == [20, 1] and r["o"]["st"] == "exact"))
    c["o"]["quad"] = "nr"
    cases.append(("WidthFormula", c))
    d = copy.deepcopy(next(r for r in wd if r["X"] == "EqualMassPhaseSpaceFactor" and r["L"] == 2))
    d["o"]["re"] = bigz(10**12 + 9)
    cases.append(("WidthAtPole", d))
    e = copy.deepcopy(next(r for r in bld if r["ff"] == 1 and r["edw"] == 1 and r["Lkind"] == "int" and not r["conv"] and r["raised"] == ""))

    def swap(t):
        if t["c"] == "EnergyDependentWidth":
            t["a"][4] = copy.deepcopy(t["a"][3])  # m_b := m_a
        for x in t["a"]:
            swap(x)

    swap(e["term"])
    cases.append(("ArgumentRouting", e))
    f = copy.deepcopy(next(r for r in bld if r["conv"] == "create_analytic_breit_wigner" and r["Lkind"] == "int"))

    def rename(t):
        if t["c"] == "EnergyDependentWidth":
            t["t"] = t["t"].replace("EqualMassPhaseSpaceFactor", "PhaseSpaceFactor")
        for x in t["a"]:
            rename(x)

    rename(f["term"])
    cases.append(("BuilderEqualsFunction", f))
    if adj:
        g = copy.deepcopy(adj[0])
        g["pts"][0]["b_re"] = bigz(sum(int(x) * 1000**i for i, x in enumerate(g["pts"][0]["f_re"][0])) - sum(int(x) * 1000**i for i, x in enumerate(g["pts"][0]["f_re"][1])) + 10**7)
        cases.append(("BuilderEqualsFunctionNumerically", g))
    recs = []
    for i, (_, r) in enumerate(cases):
        r["id"] = i
        recs.append(r)
    tv = trace.validate("Trace_C12", recs, timeout=600)
    got = {}
    for rej in tv.rejects:
        got.setdefault(rej[1], set()).add(rej[0])
    missing = [(i, want) for i, (want, _) in enumerate(cases) if want not in got.get(i, set())]
    if missing:
        raise Machinery(f"binding demonstration failed: corrupted records not rejected by the expected clause: {missing}; got {got}")
    chk.part("binding_demonstration", corrupted=len(cases), rejected_by={str(i): sorted(v) for i, v in got.items()})
