--------------------------- MODULE Trace_C20 ---------------------------
(* C20, code -> specification.  Every record carries exact values produced by the real
   ampform.kinematics.phasespace functions at one lattice point (SymPy exact arithmetic, logged
   as integers / <<num, den>>); the specification computes the expected values itself with
   PhaseSpace3 (four-vector invariants, Kibble, PDG limits in discriminant form, Kallen) and
   evaluates the clauses of the property.

   Record families ("k"):
     "ev"   a physical event: p = three integer four-vectors; M, s = the inputs handed to the
            implementation (squared masses, s1, s2); s3, kib, ind = compute_third_mandelstam,
            Kibble(...).doit(), is_within_phasespace(..., outside_value = ov).doit()
     "box"  a bounding-box point of an integer mass configuration m: same outputs
     "kal"  Kallen(x,y,z).doit() for the six orders of (X,Y,Z)/d
     "kaf"  Kallen(X/e^2, (B/e)^2, (C/e)^2).doit()  (factorisation at perfect squares)
   Scaled family: "sc" = <<num, den>> is the mass scale lam at which the implementation was really
   called (masses * lam, s * lam^2, exact rationals); s3 and kib are logged divided by lam^2 / lam^8
   (both functions are homogeneous) and the indicator is scale invariant, so every clause is judged
   on the integer point: an absolute tolerance or threshold in the implementation shows up here.
   Symbolic family: "sym" = k > 0: the functions were called with the conventional symbols sigma1..3, m0..3 with the
   particles in the k-th role assignment, unfolded and only then given their values; "sym" = 0: called with the values.
   Values: rationals <<num, den>> (den > 0; out-of-range values are clamped by the driver to
   +/-(2^31-1)/1 and can then only fail a comparison); indicator / outside values <<t, num, den>>
   with t = 0 rational, 1 NaN, 2 anything else.

   Clause classes (by name, see props/c20.py): "Harness*" = driver/spec self-checks (machinery),
   "*Value" = implementation-shaped (drift unless it changes a property clause), others = the
   property's clauses.                                                                          *)
EXTENDS PhaseSpace3, Json, IOUtils, TLC

Log == ndJsonDeserialize(IOEnv.TRACE_FILE)
VARIABLES l, cnt
Rec == Log[l]

Clause(name, ok, info) == IF ok THEN TRUE ELSE PrintT(<<"REJECT", name, Rec.id, info>>)

One == <<0, 1, 1>>
RatIs(v, n) == v[2] > 0 /\ v[1] = n * v[2]
Clamped(v) == Abs(v[1]) >= 2147483647            \* "no value / out of range": equal to nothing, never multiplied

Counters == {"ev", "ev_boundary", "ev_massless", "ev_equalmass", "box", "box_inside", "box_outside",
             "box_on_boundary", "box_s1_zero", "ov_nan", "ov_rational", "kal", "kaf", "scaled", "symbolic"}
Bump(c, names) == [n \in Counters |-> IF n \in names THEN c[n] + 1 ELSE c[n]]

\* ---- physical events ---------------------------------------------------------------------
EvStep ==
  LET P == Rec.p  M == MassesOf(P)  S == PairsOf(P)  kib == Kibble(S[1], S[2], S[3], M) IN
  /\ Clause("HarnessInputs", Rec.M = M /\ Rec.s = <<S[1], S[2]>> /\ M[1] > 0 /\ Rec.sc[1] > 0 /\ Rec.sc[2] > 0, <<M, S>>)
  /\ Clause("HarnessSpecSigma3", ThirdMandelstam(S[1], S[2], M) = S[3], <<M, S>>)
  /\ Clause("HarnessSpecKibble", kib <= 0, <<M, S, kib>>)
  /\ Clause("HarnessSpecPDG", (M[1] <= 49 /\ S[1] > 0) => InsidePDG(S[1], S[2], M), <<M, S>>)
  \* the third Mandelstam variable computed from the other two is the actual invariant (p1+p2)^2
  /\ Clause("Sigma3", RatIs(Rec.s3, S[3]), <<M, S, Rec.s3>>)
  /\ Clause("KibbleNonPositive", Rec.kib[2] > 0 /\ Rec.kib[1] <= 0, <<M, S, Rec.kib>>)
  /\ Clause("KibbleValue", RatIs(Rec.kib, kib), <<M, S, Rec.kib, kib>>)
  /\ Clause("IndicatorEvent", Rec.ind = One, <<M, S, Rec.ov, Rec.ind>>)
  /\ cnt' = Bump(cnt, {"ev"} \cup (IF kib = 0 THEN {"ev_boundary"} ELSE {})
                      \cup (IF M[2] = 0 \/ M[3] = 0 \/ M[4] = 0 THEN {"ev_massless"} ELSE {})
                      \cup (IF M[2] = M[3] \/ M[3] = M[4] \/ M[2] = M[4] THEN {"ev_equalmass"} ELSE {})
                      \cup (IF Rec.ov[1] = 1 THEN {"ov_nan"} ELSE {"ov_rational"})
                      \cup (IF Rec.sc # <<1, 1>> THEN {"scaled"} ELSE {})
                      \cup (IF Rec.sym # 0 THEN {"symbolic"} ELSE {}))

\* ---- bounding-box points -------------------------------------------------------------------
BoxStep ==
  LET m == Rec.m  M == SqAll(m)  s1 == Rec.s[1]  s2 == Rec.s[2]
      s3 == ThirdMandelstam(s1, s2, M)  kib == Kibble(s1, s2, s3, M)
      inside == InsidePDG(s1, s2, M) IN
  /\ Clause("HarnessInputs", m[1] > m[2] + m[3] + m[4] /\ m[2] >= 0 /\ m[3] >= 0 /\ m[4] >= 0
                              /\ InBox(s1, s2, m) /\ Rec.ov # One /\ Rec.sc[1] > 0 /\ Rec.sc[2] > 0, <<m, s1, s2>>)
  /\ Clause("HarnessSpecKibblePDG", IF s1 > 0 THEN (kib <= 0) <=> inside ELSE kib = 0, <<m, s1, s2, kib>>)
  /\ Clause("Sigma3Value", RatIs(Rec.s3, s3), <<m, s1, s2, Rec.s3, s3>>)
  /\ Clause("KibbleValue", RatIs(Rec.kib, kib), <<m, s1, s2, Rec.kib, kib>>)
  \* indicator = 1 exactly when s2 lies between the PDG limits for this s1, otherwise the caller's value
  /\ Clause("IndicatorBox", s1 > 0 => Rec.ind = (IF inside THEN One ELSE Rec.ov),
            <<m, s1, s2, IF inside THEN "inside" ELSE "outside", Rec.ov, Rec.ind>>)
  /\ Clause("IndicatorRange", Rec.ind = One \/ Rec.ind = Rec.ov, <<m, s1, s2, Rec.ov, Rec.ind>>)
  /\ cnt' = Bump(cnt, {"box"} \cup (IF s1 = 0 THEN {"box_s1_zero"} ELSE IF inside THEN {"box_inside"} ELSE {"box_outside"})
                      \cup (IF s1 > 0 /\ PdgDisc(s1, s2, M) = 0 THEN {"box_on_boundary"} ELSE {})
                      \cup (IF Rec.ov[1] = 1 THEN {"ov_nan"} ELSE {"ov_rational"})
                      \cup (IF Rec.sc # <<1, 1>> THEN {"scaled"} ELSE {})
                      \cup (IF Rec.sym # 0 THEN {"symbolic"} ELSE {}))

\* ---- Kallen ---------------------------------------------------------------------------------
KalStep ==
  LET x == Rec.a[1]  y == Rec.a[2]  z == Rec.a[3]  d == Rec.d  v == Rec.vals IN
  /\ Clause("HarnessInputs", d > 0 /\ Len(v) = 6, <<Rec.a, d>>)
  /\ Clause("KallenSymmetric", \A n \in 1..6 : ~Clamped(v[n]) /\ v[n] = v[1], <<Rec.a, d, v>>)
  /\ Clause("KallenValue", ~Clamped(v[1]) /\ v[1][2] > 0 /\ v[1][1] * d * d = Kallen(x, y, z) * v[1][2], <<Rec.a, d, v[1]>>)
  /\ cnt' = Bump(cnt, {"kal"})
KafStep ==
  LET x == Rec.a[1]  b == Rec.a[2]  c == Rec.a[3]  e == Rec.e  v == Rec.val IN
  /\ Clause("HarnessInputs", e > 0 /\ b >= 0 /\ c >= 0, <<Rec.a, e>>)
  \* Kallen(x, y, z) = (x - (sqrt y + sqrt z)^2)(x - (sqrt y - sqrt z)^2) with x = X/e^2, sqrt y = B/e, sqrt z = C/e
  /\ Clause("KallenFactorises", ~Clamped(v) /\ v[2] > 0 /\ v[1] * e * e * e * e = KallenFactored(x, b, c) * v[2], <<Rec.a, e, v>>)
  /\ cnt' = Bump(cnt, {"kaf"})

Step ==
  /\ l <= Len(Log)
  /\ CASE Rec.k = "ev" -> EvStep
       [] Rec.k = "box" -> BoxStep
       [] Rec.k = "kal" -> KalStep
       [] Rec.k = "kaf" -> KafStep
       [] OTHER -> Clause("HarnessKind", FALSE, Rec.k) /\ UNCHANGED cnt
  /\ l' = l + 1
  /\ (l = Len(Log) => \A n \in Counters : PrintT(<<"STAT", n, cnt'[n]>>))

TraceInit == l = 1 /\ cnt = [n \in Counters |-> 0]
TraceSpec == TraceInit /\ [][Step]_<<l, cnt>>
TraceAccepted == TLCGet("stats").diameter = Len(Log) + 1
=============================================================================
