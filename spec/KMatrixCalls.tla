----------------------------- MODULE KMatrixCalls -----------------------------
(***************************************************************************)
(* C10, "the result depends on its arguments only".                        *)
(*                                                                         *)
(* The four K-matrix classes keep their un-parametrised matrices in        *)
(* process-global functools.cache's on _create_matrices, keyed by          *)
(* n_channels (plus return_t_hat / return_f_hat for the relativistic       *)
(* classes).  The cached values are mutable matrices shared by every later *)
(* call.  The state machine below has one action, Formulate(k), for the    *)
(* k-th call of a small alphabet Calls; `cache` is the abstract content of *)
(* the four caches and `out` the abstract result of the last call:         *)
(*   skel  which skeleton the result was built from (class, n, flag)       *)
(*   par   with which parametrisation <<n_poles, argument tuple>>, <<0,0>> *)
(*         for parametrize=False                                           *)
(* Purity is the invariant out = Fresh(last call), Fresh(c) being the      *)
(* result of the same call in a fresh process.                             *)
(*                                                                         *)
(* Dev names deviations the pinned design does NOT have; each makes TLC    *)
(* report Pure violated (sensitivity of the model):                        *)
(*   "KeyWithoutFlag"  the cache is keyed by (class, n) only               *)
(*   "InPlaceEdit"     formulate writes the parametrised entries into the  *)
(*                     cached matrix                                       *)
(* TLC enumerates every sequence of at most MaxLen calls; with Emit = TRUE *)
(* each one is printed (<<"SEQ", hist>>) and the driver executes it        *)
(* against ampform in one process, comparing every result with the same    *)
(* call made in a fresh process (Trace_KMatrixCalls).                      *)
(***************************************************************************)
EXTENDS Integers, Sequences, FiniteSets, TLC

CONSTANTS Calls,     \* sequence of [cls, n, np, flag, par, a]
          MaxLen, Dev, Emit

\* argument tuples a call can pass: phase-space implementation, angular momentum, meson radius
ArgSets == << [X |-> "PhaseSpaceFactor", L |-> 0, d |-> 1],
              [X |-> "PhaseSpaceFactorAbs", L |-> 2, d |-> 3],
              [X |-> "VfPhaseSpace", L |-> 1, d |-> 2] >>

C(cls, n, np, flag, par, a) == [cls |-> cls, n |-> n, np |-> np, flag |-> flag, par |-> par, a |-> a]
\* pairs that differ in the flag only, in n_poles / arguments only, the bare skeleton
\* (parametrize=False), and non-relativistic calls whose extra arguments are ignored
CallsQuick == <<
  C("RelK", 1, 1, FALSE, TRUE, 1), C("RelK", 1, 1, TRUE, TRUE, 1), C("RelK", 1, 2, FALSE, TRUE, 2),
  C("RelP", 1, 1, FALSE, TRUE, 1), C("RelP", 1, 1, TRUE, TRUE, 1), C("RelP", 1, 2, FALSE, TRUE, 3),
  C("NRP", 1, 2, FALSE, TRUE, 2), C("NRP", 1, 1, FALSE, TRUE, 2),
  C("NRK", 1, 1, FALSE, TRUE, 1) >>
CallsThorough == CallsQuick \o <<
  C("NRK", 1, 2, FALSE, TRUE, 1), C("NRK", 1, 1, FALSE, TRUE, 2),
  C("RelK", 1, 1, TRUE, FALSE, 1), C("NRP", 1, 1, FALSE, FALSE, 1),
  C("RelK", 2, 1, FALSE, TRUE, 3), C("RelK", 2, 2, TRUE, TRUE, 1),
  C("RelP", 2, 1, FALSE, TRUE, 2), C("RelP", 2, 1, TRUE, TRUE, 2),
  C("NRK", 2, 2, FALSE, FALSE, 1) >>
NoDev == {}

\* typed sentinels (TLC compares values of one type only)
NoSkel == <<"none", 0, FALSE>>
NoPar == <<0, 0>>             \* parametrize = False: the bare skeleton
NoEdit == <<-1, -1>>
NoOut == [skel |-> NoSkel, par |-> NoEdit]
IsRel(c) == c.cls \in {"RelK", "RelP"}
Skel(c) == <<c.cls, c.n, IF IsRel(c) THEN c.flag ELSE FALSE>>
\* the non-relativistic classes accept and ignore phsp_factor / angular_momentum / meson_radius
Par(c) == IF ~c.par THEN NoPar ELSE IF IsRel(c) THEN <<c.np, c.a>> ELSE <<c.np, 0>>
Fresh(c) == [skel |-> Skel(c), par |-> Par(c)]
KeyOf(c) == IF "KeyWithoutFlag" \in Dev THEN <<c.cls, c.n, FALSE>> ELSE Skel(c)
Keys == {KeyOf(Calls[k]) : k \in 1..Len(Calls)}
Absent == [skel |-> NoSkel, edit |-> NoEdit]

VARIABLES hist, cache, out
vars == <<hist, cache, out>>

Init == hist = <<>> /\ cache = [key \in Keys |-> Absent] /\ out = NoOut

Formulate(k) ==
  LET c == Calls[k]
      key == KeyOf(c)
      entry == IF cache[key] = Absent THEN [skel |-> Skel(c), edit |-> NoEdit] ELSE cache[key]
      res == [skel |-> entry.skel,
              par |-> IF entry.edit # NoEdit THEN entry.edit ELSE Par(c)]
  IN /\ Len(hist) < MaxLen
     /\ hist' = Append(hist, k)
     /\ out' = res
     /\ cache' = [cache EXCEPT ![key] =
                    IF "InPlaceEdit" \in Dev /\ c.par THEN [entry EXCEPT !.edit = res.par] ELSE entry]
     /\ (Emit => PrintT(<<"SEQ", hist'>>))

Next == \E k \in 1..Len(Calls) : Formulate(k)
Spec == Init /\ [][Next]_vars

Pure == out = NoOut \/ out = Fresh(Calls[hist[Len(hist)]])
\* the abstraction separates exactly the calls whose results must differ
SameResult(j, k) == Fresh(Calls[j]) = Fresh(Calls[k])
ASSUME Emit => PrintT(<<"ALPHABET", Calls, ArgSets>>)
=============================================================================
