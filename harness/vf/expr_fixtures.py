"""Fixture expression classes for C14 / C15, importable by name in a fresh interpreter
(pickle needs the defining module).  LegacyExpr is built with the deprecated, still public
API of ampform.sympy (UnevaluatedExpression, create_expression, implement_doit_method)."""
from __future__ import annotations

import warnings

import sympy as sp

with warnings.catch_warnings():
    warnings.simplefilter("ignore")
    from ampform.sympy import UnevaluatedExpression, create_expression, implement_doit_method, make_commutative

    @make_commutative
    @implement_doit_method
    class LegacyExpr(UnevaluatedExpression):
        def __new__(cls, a, b, **hints):
            return create_expression(cls, a, b, **hints)

        def evaluate(self) -> sp.Expr:
            a, b = self.args
            return a**2 + sp.sqrt(b)


# A class built with the public @unevaluated decorator whose non-SymPy field is declared *between* SymPy fields (what a
# user gets by subclassing a library class with a trailing `name` attribute and adding an argument): the library's own
# classes all declare their non-SymPy fields last, so the argument layout of __getnewargs__/__new__ is only exercised here.
from typing import Any  # noqa: E402

from ampform.sympy import argument, unevaluated  # noqa: E402


@unevaluated
class InterleavedExpr(sp.Expr):
    x: Any
    tag: str = argument(default="t", sympify=False)
    y: Any = sp.Integer(3)

    def evaluate(self) -> sp.Expr:
        return self.x**2 + sp.sqrt(self.y)
