---------------------------- MODULE Lorentz_MC ----------------------------
(* Model-checking instances of Lorentz: the Pythagorean parameter lattices, written out  *)
(* literally (they were found by search in vf/lorentz_lattice.py; Lorentz!LatticeOK      *)
(* re-verifies every element: a^2+b^2 = h^2, integer masses).  TLC configuration files   *)
(* cannot contain tuples, hence this module.                                             *)
(*   beta lattice element  <<a, b, h>>        beta = a/h, gamma = h/b                     *)
(*   angle lattice element <<cn, sn, h>>      (cos, sin) = (cn/h, sn/h)                   *)
(*   momentum element      <<m, E, x, y, z>>  m^2 = E^2 - x^2 - y^2 - z^2                 *)
EXTENDS Lorentz

AxisAngles == {<<1, 0, 1>>, <<0, 1, 1>>, <<-1, 0, 1>>, <<0, -1, 1>>}
AxisMoms == {<<4, 5, 3, 0, 0>>, <<4, 5, -3, 0, 0>>, <<4, 5, 0, 3, 0>>, <<4, 5, 0, -3, 0>>,
             <<4, 5, 0, 0, 3>>, <<4, 5, 0, 0, -3>>}

\* A: denominators 5 only (+ small generic momenta) -- chains of 3
BetasA == {<<3, 4, 5>>, <<-3, 4, 5>>, <<4, 3, 5>>, <<-4, 3, 5>>}
AnglesA == AxisAngles \cup {<<3, 4, 5>>, <<4, 3, 5>>, <<-3, 4, 5>>, <<3, -4, 5>>, <<-4, -3, 5>>}
MomsA == AxisMoms \cup {<<1, 2, 1, 1, 1>>, <<1, 2, -1, 1, -1>>, <<2, 5, 1, 2, 4>>, <<2, 5, -2, 4, -1>>}
StartsA == {<<2, 5, 1, 2, 4>>, <<4, 5, 0, 0, 3>>}

\* B: denominators 5, 13, 17 -- chains of 3
BetasB == BetasA \cup {<<5, 12, 13>>, <<-5, 12, 13>>, <<12, 5, 13>>, <<-12, 5, 13>>, <<8, 15, 17>>, <<-8, 15, 17>>}
AnglesB == AnglesA \cup {<<5, 12, 13>>, <<12, -5, 13>>, <<-12, 5, 13>>, <<-5, -12, 13>>, <<8, 15, 17>>, <<-15, 8, 17>>, <<15, -8, 17>>}
MomsB == MomsA \cup {<<2, 3, 2, 1, 0>>, <<2, 3, 0, -1, 2>>, <<2, 3, -1, 0, -2>>, <<1, 3, 0, 2, 2>>, <<1, 3, -2, 2, 0>>,
                     <<2, 7, 6, 0, -3>>, <<12, 13, 0, 0, 5>>, <<12, 13, 0, -5, 0>>, <<5, 13, 0, 0, -12>>, <<3, 5, 4, 0, 0>>}
StartsB == StartsA \cup {<<1, 2, -1, 1, -1>>, <<2, 3, 0, -1, 2>>, <<12, 13, 0, 0, 5>>}

\* C: denominators up to 65 and larger generic momenta -- chains of 2
BetasC == BetasB \cup {<<63, 16, 65>>, <<-63, 16, 65>>, <<16, 63, 65>>, <<33, 56, 65>>, <<-56, 33, 65>>,
                       <<15, 8, 17>>, <<-15, 8, 17>>, <<7, 24, 25>>, <<-24, 7, 25>>, <<20, 21, 29>>, <<-21, 20, 29>>}
AnglesC == AnglesB \cup {<<63, 16, 65>>, <<-16, 63, 65>>, <<33, -56, 65>>, <<-56, -33, 65>>, <<7, 24, 25>>, <<-24, 7, 25>>,
                         <<20, 21, 29>>, <<21, -20, 29>>}
MomsC == MomsB \cup {<<5, 7, 2, 2, 4>>, <<5, 7, -4, 2, -2>>, <<3, 7, 0, 2, 6>>, <<11, 14, 5, -5, 5>>, <<7, 9, 4, 0, -4>>,
                     <<5, 11, 4, -8, 4>>, <<8, 17, 0, 0, 15>>, <<15, 17, -8, 0, 0>>, <<7, 25, 0, 24, 0>>}
StartsC == StartsB \cup {<<5, 7, 2, 2, 4>>, <<11, 14, 5, -5, 5>>, <<7, 25, 0, 24, 0>>}
=============================================================================
