--------------------------- MODULE CacheFS_MC ---------------------------
(* Model-checking instance of CacheFS: three expressions of which e1 and e2 print
   identically (one key), e3 has its own key. *)
EXTENDS CacheFS
KeyOfCollide == [x \in {"e1", "e2", "e3"} |-> IF x = "e3" THEN "k2" ELSE "k1"]
TmpOfDef == [p \in {1, 2} |-> IF p = 1 THEN "t1" ELSE "t2"]
DevNone == {}
DevProcessMemo == {"ProcessMemo"}
DevCheckThenMkdir == {"CheckThenMkdir"}
DevPinned == {"InPlaceWrite", "UncheckedLoad"}
=============================================================================
