--------------------------- MODULE ModelOps_MC ---------------------------
(* Model-checking instance of ModelOps: a small abstract model that has every role the
   real models have -- two coefficients (no assumptions), mass and width of a resonance
   (nonnegative), a meson radius (positive), the mass of a stable final state that occurs
   only in the definition of a kinematic variable (DPD-aligned model with stable ids), a
   "ghost" parameter that occurs nowhere but in parameter_defaults (m_0 of a model with
   stable ids), three kinematic variables (one of them occurring in the intensity itself,
   like the zeta angles of an aligned model), two amplitudes, two components -- and the map
   alphabet of C17. *)
EXTENDS ModelOps

c1 == Sym("c1", "none")   c2 == Sym("c2", "none")
mR == Sym("mR", "nn")     gR == Sym("gR", "nn")    dR == Sym("dR", "pos")
mS == Sym("mS", "nn")     mG == Sym("mG", "nn")
m12 == Sym("m12", "nn")   th == Sym("th", "re")    zz == Sym("zz", "re")
p1 == Sym("p1", "none")   p2 == Sym("p2", "none")

A1 == {c1, mR, gR, dR, m12, th}
A2 == {c2, mR, gR, dR, m12, th}
MCModel ==
  [ intensity |-> {zz},
    amps  |-> [a \in {"a1", "a2"} |-> IF a = "a1" THEN A1 ELSE A2],
    comps |-> [c \in {"I", "A1"} |-> IF c = "I" THEN A1 \cup A2 \cup {zz} ELSE A1],
    expr  |-> A1 \cup A2 \cup {zz},
    pkeys |-> <<c1, c2, mR, gR, dR, mS, mG>>,
    pvals |-> <<1, 2, 3, 4, 5, 6, 7>>,
    kin   |-> [k \in {m12, th, zz} |-> IF k = zz THEN {p1, p2, mS} ELSE {p1, p2}],
    p4    |-> {p1, p2} ]

MCMaps ==
  [ inj      |-> << <<"c1", "x">> >>,                       \* injective, fresh name
    injback  |-> << <<"x", "c1">> >>,                       \* and back
    merge    |-> << <<"c1", "c">>, <<"c2", "c">> >>,        \* couple two parameters (unequal defaults)
    chain    |-> << <<"c1", "c2">> >>,                      \* a -> b with b present: couples a and b
    chain2   |-> << <<"mR", "gR">>, <<"gR", "w">> >>,       \* a -> b, b -> w at once: no coupling
    swap     |-> << <<"mR", "gR">>, <<"gR", "mR">> >>,      \* a <-> b
    kinv     |-> << <<"m12", "mm">> >>,                     \* a kinematic variable
    kindef   |-> << <<"mS", "mSS">> >>,                     \* parameter used in a kin. definition only
    empty    |-> << >>,
    unknown  |-> << <<"nope", "y">> >>,                     \* warning, no change
    ident    |-> << <<"c1", "c1">> >>,
    ghost    |-> << <<"mG", "mGG">> >>,                     \* parameter occurring nowhere else
    tagmerge |-> << <<"dR", "mR">> >>,                      \* inadmissible: same name, different assumptions
    paramkin |-> << <<"mS", "m12">> >>,                     \* inadmissible: parameter named like a kin. variable
    p4clash  |-> << <<"c1", "p1">> >> ]                     \* inadmissible: parameter named like a four-momentum
\* the alphabet required by C17 (admissible maps + warning cases)
MCMapsCore == [m \in {"inj", "injback", "merge", "chain", "chain2", "swap", "kinv", "kindef",
                      "empty", "unknown", "ident", "ghost"} |-> MCMaps[m]]
MCMapsSmall == [m \in {"inj", "merge", "swap", "chain2", "ghost", "empty", "kinv"} |-> MCMaps[m]]
MCExtraSyms == {Sym("c1", "re"), Sym("nope", "none")}     \* right name wrong assumptions; unknown
MCExtraNames == {"nope"}
MCValues == {8, 9}
MCValues1 == {8}
DevNone == {}
DevPinned == {"CollectExprKinOnly"}   \* ampform before /repo commit 31be39e
DevSeq == {"SequentialSubs"}
DevAssume == {"DropAssumptions"}
DevComps == {"ComponentsNotRenamed"}
DevKin == {"KinKeysNotRenamed"}
DevAmps == {"AmplitudesNotRenamed"}
DevMut == {"MutateReceiver"}
DevIdx == {"IndexOffByOne"}
DevSetName == {"SetByNameNext"}
=============================================================================
