----------------------------- MODULE KMatrixRef -----------------------------
(***************************************************************************)
(* Reference model for C09/C10: a walk over the whole lattice of           *)
(* KMatrixLattice for n <= MaxN <= 2.  In every state the amplitudes are   *)
(* computed inside TLA+ by Cramer's rule and every law of KMatrixLaw is an *)
(* invariant: the laws are consistent, they characterise the solution, and *)
(* unitarity and symmetry follow for every real symmetric K and positive   *)
(* rho of the lattice.                                                     *)
(*                                                                         *)
(* Dev selects a named deviation of the reference (sensitivity of the      *)
(* laws; each must make TLC report a violated invariant):                  *)
(*   "KRhoOrder"   T^ = K (1 - i K rho)^-1                                 *)
(*   "RhoNotSqrt"  T = rho T^ rho                                          *)
(*   "FTransposed" F = ((1 - iK)^-1)^T P                                   *)
(***************************************************************************)
EXTENDS KMatrixLattice

CONSTANTS MaxN, Dev

VARIABLES n, kx, rx, px
vars == <<n, kx, rx, px>>

Init == /\ n \in 1..MaxN
        /\ kx = [e \in 1..Tri(n) |-> 1]
        /\ rx = [i \in 1..n |-> 1]
        /\ px = 1
SetK(e, v) == kx[e] # v /\ kx' = [kx EXCEPT ![e] = v] /\ UNCHANGED <<n, rx, px>>
SetRho(i, v) == rx[i] # v /\ rx' = [rx EXCEPT ![i] = v] /\ UNCHANGED <<n, kx, px>>
SetP(v) == px # v /\ px' = v /\ UNCHANGED <<n, kx, rx>>
Next == \/ \E e \in 1..Tri(n), v \in 1..NK : SetK(e, v)
        \/ \E i \in 1..n, v \in 1..NRho : SetRho(i, v)
        \/ \E v \in 1..NP : SetP(v)
Spec == Init /\ [][Next]_vars

K == MReal(KOf(n, kx))
Rho == RhoOf(n, rx)
Sq == SqOf(n, rx)
P == Col(POf(n, px))

That == IF Dev = "KRhoOrder" THEN MMul(K, Inverse(OneMinusIKD(Rho, K))) ELSE RefThat(K, Rho)
T == IF Dev = "RhoNotSqrt" THEN MMul(MMul(MDiag(Rho), That), MDiag(Rho))
     ELSE MMul(MMul(MDiag([i \in 1..n |-> GConj(Sq[i])]), That), MDiag(Sq))
Tnr == RefTnr(K)
F == IF Dev = "FTransposed" THEN MMul(MTranspose(Inverse(OneMinusIK(K))), P) ELSE RefF(K, P)
Fhat == RefFhat(K, Rho, Sq, P)
Frel == MMul(MDiag(Sq), Fhat)

TypeOK == /\ n \in 1..MaxN
          /\ RealSymmetric(KOf(n, kx))
          /\ PositiveRho([i \in 1..n |-> Rho[i][1]], [i \in 1..n |-> Sq[i][1]])
          /\ \A i \in 1..n : GIsReal(Rho[i]) /\ GIsReal(Sq[i])

\* C09 -----------------------------------------------------------------------
RelLaws == RelThatLaw(That, K, Rho) /\ RelTLaw(T, That, Sq)
RelSymmetric == Symmetric(T) /\ Symmetric(That)
RelUnitary == InBudget(T) => Unitary(T)
NonRelLaws == NonRelLaw(Tnr, K)
NonRelSymmetric == Symmetric(Tnr)
NonRelUnitary == InBudget(Tnr) => Unitary(Tnr)
\* the integer form of unitarity agrees with the Gaussian-rational form (small denominators only)
UnitaryFormsAgree == /\ CommonDen(Tnr) <= 150 => (Unitary(Tnr) <=> UnitaryRat(Tnr))
                     /\ CommonDen(T) <= 150 => (Unitary(T) <=> UnitaryRat(T))
\* T = K(1-iK)^-1 with K -> sqrt(rho) K^ sqrt(rho): the two formulations agree
RelIsNonRelOfScaledK ==
  LET Ks == MMul(MMul(MDiag(Sq), K), MDiag(Sq)) IN NonRelLaw(T, Ks)

\* C10 -----------------------------------------------------------------------
FLaws == NonRelFLaw(F, K, P) /\ FViaT(F, Tnr, P)
FhatLaws == RelFhatLaw(Fhat, K, Sq, P) /\ RelFLaw(Frel, Fhat, Sq)
FrelClosed == MMul(OneMinusIK(K), Frel) = MMul(MDiag(Sq), P)       \* (1 - iK) F = sqrt(rho) P
=============================================================================
