----------------------------- MODULE Trace_Kin -----------------------------
(* C07, code -> spec.  Each record carries one concrete topology object (as its laminar
   family `tree`) and the projection of the library's kinematic-variable expressions
   (vf/topo.py: expression tree -> Dir(target, frame) / Mass(target)).  The specification
   recomputes the documented meaning of every name from the tree alone (Topo!DocAngles,
   Topo!DocMasses) and compares.

   kinds of record:
     "topology"  one topology object: every name must carry its documented meaning
     "adapter"   a merged dictionary of several registered topologies (`trees`): every
                 name must carry the documented meaning it has in every registered
                 topology that defines it (a name with two meanings is a clash)          *)
EXTENDS Topo, Json, IOUtils, TLC

Log == ndJsonDeserialize(IOEnv.TRACE_FILE)
VARIABLE l
Rec == Log[l]


SetOfSets(seq) == { ToSet(seq[i]) : i \in DOMAIN seq }
SeqOfSets(seq) == [ i \in DOMAIN seq |-> ToSet(seq[i]) ]

Clause(name, ok, info) == IF ok THEN TRUE ELSE PrintT(<<"REJECT", name, Rec.id, info>>)
Stat(name) == PrintT(<<"STAT", name, 1>>)

ObsAngles(kind) == { [name |-> SeqOfSets(a.name), target |-> ToSet(a.target), frame |-> SeqOfSets(a.frame)] :
                     a \in { Rec.angles[i] : i \in { j \in DOMAIN Rec.angles : Rec.angles[j].kind = kind } } }
ObsMasses == { [name |-> ToSet(m.name), target |-> ToSet(m.target)] : m \in ToSet(Rec.masses) }

\* the only difference tolerated as a *convention* (reported, not rejected): at a node whose
\* two children both decay further the library fills the pair with the helicity child
BothDecayFlip(T, a) == \E S \in BothDecay(T) :
    a = [DocAngle(T, S) EXCEPT !.target = HelChild(T, S)]

TopologyStep ==
  LET T == SetOfSets(Rec.tree) IN
  /\ Clause("tree-is-isobar", IsIsobar(T), Rec.tree)
  /\ Clause("phi-theta-same-names", { a.name : a \in ObsAngles("phi") } = { a.name : a \in ObsAngles("theta") }, "")
  /\ Clause("angle-names", { a.name : a \in ObsAngles("phi") } = { a.name : a \in DocAngles(T) },
            <<{ a.name : a \in ObsAngles("phi") }, { a.name : a \in DocAngles(T) }>>)
  /\ \A kind \in {"phi", "theta"} :
       \A a \in ObsAngles(kind) :
          IF a \in DocAngles(T) THEN TRUE
          \* (when both children of a node decay the pair gives the direction of the opposite-helicity child: since the
          \* repair cf86eeb this is deterministic; the other child's direction is a different quantity under the same name)
          ELSE IF BothDecayFlip(T, a) THEN Clause("angle-meaning-both-children-decay", FALSE, <<kind, a>>)
          ELSE Clause("angle-meaning", FALSE, <<kind, a>>)
  /\ Clause("mass-meaning", ObsMasses = DocMasses(T), <<ObsMasses, DocMasses(T)>>)
  \* naming functions are total on the edges of the topology and agree with Topo
  /\ \A i \in DOMAIN Rec.suffixes :
        LET S == ToSet(Rec.suffixes[i][1]) IN
        Clause("boost-chain-suffix", S # Root(T) => SeqOfSets(Rec.suffixes[i][2]) = AngleName(T, S), <<S, Rec.suffixes[i][2], AngleName(T, S)>>)
  /\ Clause("topology-identifier", SetOfSets(Rec.topo_id) = TopoId(T), <<Rec.topo_id, TopoId(T)>>)
  /\ \A i \in DOMAIN Rec.opposite :
        Clause("opposite-helicity-state", (Rec.opposite[i][2] = 1) = IsOpposite(T, ToSet(Rec.opposite[i][1])), Rec.opposite[i])
  \* the tree operators of ampform.helicity.decay (attached final state, parent, sibling, chain of ancestors), edge by edge
  /\ \A i \in DOMAIN Rec.treeops :
        LET o == Rec.treeops[i]  S == ToSet(o.s) IN
        /\ Clause("attached-final-state-sorted", o.attached = SortedSeq(S), o.attached)
        /\ Clause("parent-state", ToSet(o.parent) = (IF S = Root(T) THEN {} ELSE Parent(T, S)), <<S, o.parent>>)
        /\ Clause("sibling-state", ToSet(o.sibling) = (IF S = Root(T) THEN {} ELSE CHOOSE C \in Kids(T, Parent(T, S)) : C # S), <<S, o.sibling>>)
        /\ Clause("decay-chain-ids", SeqOfSets(o.chain) = <<S>> \o Chain(T, S) \o (IF S = Root(T) THEN <<>> ELSE <<Root(T)>>), <<S, o.chain>>)
  \* three-body: the spectator is the final state attached to the root node, the decay products are the other two (sorted)
  /\ \A i \in DOMAIN Rec.three :
        LET o == Rec.three[i]
            spect == CHOOSE C \in Kids(T, Root(T)) : Cardinality(C) = 1
            pair == CHOOSE C \in Kids(T, Root(T)) : Cardinality(C) = 2 IN
        /\ Stat("three-body-spectator")
        /\ Clause("spectator-and-decay-products", o.err = "" /\ {o.spectator} = spect /\ o.products = SortedSeq(pair), o)
        /\ Clause("relabel-shifts-every-id-by-one",
                  SetOfSets(o.relabelled_tree) = Relabel(T, [j \in Root(T) |-> j + 1]) /\ o.relabelled_initial = <<0>>, o)
  \* compute_boost_chain(i): successive pure boosts into the rest frames of the ancestors of final state i
  \* (outermost first, the initial state excluded) and finally of i itself, each momentum taken in the frame
  \* reached so far
  /\ \A k \in DOMAIN Rec.boost_chains :
        LET i == Rec.boost_chains[k][1]
            obs == Rec.boost_chains[k][2]
            systems == Reverse(Chain(T, {i})) \o <<{i}>>
        IN Clause("boost-chain",
                  /\ Len(obs) = Len(systems)
                  /\ \A n \in DOMAIN obs :
                        /\ ToSet(obs[n].system) = systems[n]
                        /\ SeqOfSets(obs[n].frame) = Reverse(SubSeq(systems, 1, n - 1)),
                  <<i, obs, systems>>)
  /\ PrintT(<<"STAT", "angles-checked", Cardinality(ObsAngles("phi")) + Cardinality(ObsAngles("theta"))>>)

AnglesOf(x, kind) == { [name |-> SeqOfSets(a.name), target |-> ToSet(a.target), frame |-> SeqOfSets(a.frame)] :
                       a \in { x.angles[i] : i \in { j \in DOMAIN x.angles : x.angles[j].kind = kind } } }
Perms(S) == { p \in [S -> S] : \A i, j \in S : p[i] = p[j] => i = j }

\* HelicityAdapter as a state machine: registered = set of topologies; Permutate closes it
\* under relabelling of the final-state ids; create_expressions merges the dictionaries
AdapterStep ==
  LET Init0 == { SetOfSets(Rec.initial[i]) : i \in DOMAIN Rec.initial }
      Reg == { SetOfSets(Rec.tops[i].tree) : i \in DOMAIN Rec.tops }
      F0 == Root(CHOOSE T \in Init0 : TRUE)
      Expected == IF Rec.permuted = 1 THEN { Relabel(T, pi) : T \in Init0, pi \in Perms(F0) } ELSE Init0
  IN
  /\ Clause("registered-set", Reg = Expected, <<Cardinality(Reg), Cardinality(Expected)>>)
  \* Permutate is a closure (applying it again adds nothing); registering a topology twice adds nothing;
  \* a topology over other final-state ids is refused
  /\ Clause("permutate-idempotent", Rec.count_again = Rec.count, <<Rec.count, Rec.count_again>>)
  /\ Clause("mismatching-final-state-ids-refused", Rec.mismatch_refused = 1, "")
  /\ \A kind \in {"phi", "theta"} :
       /\ Clause("merged-covers", { a.name : a \in ObsAngles(kind) } =
                    UNION { { a.name : a \in AnglesOf(Rec.tops[i], kind) } : i \in DOMAIN Rec.tops }, kind)
       \* a name denotes one quantity across all registered topologies
       /\ \A a \in ObsAngles(kind) : \A i \in DOMAIN Rec.tops : \A b \in AnglesOf(Rec.tops[i], kind) :
             Clause("name-clash", b.name = a.name => b = a, <<kind, a.name, a.target, b.target, Rec.tops[i].tree>>)
  /\ Clause("adapter-masses", ObsMasses = UNION { DocMasses(T) : T \in Reg }, "")
  /\ PrintT(<<"STAT", "adapter-topologies", Cardinality(Reg)>>)

Step == /\ l <= Len(Log)
        /\ CASE Rec.kind = "topology" -> TopologyStep
             [] Rec.kind = "adapter" -> AdapterStep
             [] OTHER -> Clause("unknown-record-kind", FALSE, Rec.kind)
        /\ l' = l + 1
TraceInit == l = 1
TraceSpec == TraceInit /\ [][Step]_l
TraceAccepted == TLCGet("stats").diameter = Len(Log) + 1
=============================================================================
