"""Observation layer shared by C04 and C05: build (reaction, alignment) models in worker
processes, evaluate them on generated events (and rotated events), extract summation pools."""
from __future__ import annotations

import logging
import re
import zlib
from fractions import Fraction as F

import numpy as np
import sympy as sp

from . import ampl, numeric, topo


def outer_states(reaction) -> list[dict]:
    t0 = reaction.transitions[0]
    ids = list(t0.topology.incoming_edge_ids) + sorted(t0.topology.outgoing_edge_ids)
    out = []
    for i in ids:
        p = t0.states[i].particle
        hels = sorted({int(2 * F(t.states[i].spin_projection)) for t in reaction.transitions})
        out.append({"id": i, "spin2": int(2 * F(p.spin)), "massless": int(p.mass == 0), "hels": hels})
    return out


def n_topologies(reaction) -> int:
    return len({t.topology for t in reaction.transitions})


def coupling_values(model, seed):
    out = {}
    for k in model.parameter_defaults:
        if k.name.startswith(("C_", "H_")):
            r = np.random.default_rng(zlib.crc32(k.name.encode()) + seed)
            out[k] = complex(r.uniform(0.4, 1.6) * np.exp(1j * r.uniform(0, 2 * np.pi)))
    return out


def load(spec):
    kind = spec[0]
    if kind == "real":
        return ampl.real_reaction(spec[1], spec[2])
    if kind == "synth":
        return ampl.make_reaction(spec[1])
    raise ValueError(kind)


def configure_alignment(reaction, alignment):
    """-> (reaction to use, id offset, builder)"""
    import ampform
    from ampform.helicity.align.axisangle import AxisAngleAlignment
    from ampform.helicity.align.dpd import DalitzPlotDecomposition, relabel_edge_ids

    off = 0
    if alignment.startswith("dpd") or alignment == "relabel":
        reaction = relabel_edge_ids(reaction)
        off = 1
    b = ampform.get_builder(reaction)
    if alignment == "axis":
        b.config.spin_alignment = AxisAngleAlignment()
    elif alignment.startswith("dpd"):
        b.config.spin_alignment = DalitzPlotDecomposition(int(alignment[3]))
    return reaction, off, b


def pools_of(model, reaction, off) -> list[dict]:
    from ampform.sympy import PoolSum

    outer = {o["id"]: o for o in outer_states(reaction)}
    order = [o["id"] for o in outer_states(reaction)]
    init = order[0]
    out = []

    def state_of(name):
        if name == "m_A":
            return init
        m = re.fullmatch(r"m(\d+)", name)
        if m:
            return int(m.group(1))
        m = re.fullmatch(r"\\lambda_(\d)\^", name)
        if m:
            return order[int(m.group(1))]
        m = re.fullmatch(r"[a-z]+_(-?\d+)\^.*", name)
        if m:
            return int(m.group(1))
        return None

    def walk(e):
        if isinstance(e, PoolSum):
            for idx, vals in e.indices:
                sid = state_of(idx.name)
                if sid is None or sid not in outer:
                    out.append({"index": idx.name, "spin2": -1, "massless": 0, "vals": [int(2 * sp.Rational(v)) for v in vals]})
                else:
                    out.append({"index": idx.name, "spin2": outer[sid]["spin2"], "massless": outer[sid]["massless"], "vals": [int(2 * sp.Rational(v)) for v in vals]})
        for a in e.args:
            walk(a)

    walk(model.intensity)
    # every rotation factor D^j / d^j must carry the spin of the state whose projections it mixes
    from sympy.physics.quantum.spin import WignerD

    for w in model.intensity.atoms(WignerD):
        j = w.args[0]
        sids = {state_of(x.name) for a in w.args[1:3] for x in a.free_symbols}
        sids.discard(None)
        for sid in sids:
            if sid in outer:
                out.append({"index": f"rotation:{w.args[1]},{w.args[2]}", "spin2": outer[sid]["spin2"], "massless": -1, "vals": [int(2 * sp.Rational(j))]})
    return out


def _job(args):
    """Worker: build one model and evaluate it on events and rotated events."""
    spec, alignment, events, rotations, seed, want_pools = args
    logging.disable(logging.CRITICAL)
    try:
        reaction0 = load(spec)
        reaction, off, b = configure_alignment(reaction0, alignment)
        try:
            model = b.formulate()
        except Exception as ex:  # noqa: BLE001
            return {"ok": 0, "error": f"{type(ex).__name__}: {str(ex)[:200]}"}
        res = {"ok": 1, "error": ""}
        if want_pools:
            res["pools"] = pools_of(model, reaction, off)
        if events is not None:
            ev = numeric.ModelEvaluator(model, coupling_values(model, seed))
            P = {i + off: np.asarray(p) for i, p in events.items()}
            res["I"] = ev(P).tolist()
            res["Irot"] = [ev(numeric.rotate(P, np.asarray(R))).tolist() for R in rotations]
        return res
    except Exception as ex:  # noqa: BLE001
        import traceback

        return {"ok": -1, "error": f"{type(ex).__name__}: {ex}\n{traceback.format_exc()[-1500:]}"}


def run_jobs(jobs, workers=12, job_timeout=150):
    """Run _job for every entry in forked workers, at most `workers` at a time; a job that exceeds
    job_timeout seconds is killed and reported as {"ok": -2} (too expensive, not a verdict)."""
    import json
    import os
    import select
    import signal
    import time

    results = [None] * len(jobs)
    pending = list(range(len(jobs)))
    running = {}  # fd -> (idx, pid, start, buffer)
    while pending or running:
        while pending and len(running) < workers:
            i = pending.pop(0)
            r, w = os.pipe()
            pid = os.fork()
            if pid == 0:
                try:
                    os.close(r)
                    out = _job(jobs[i])
                    with os.fdopen(w, "w") as f:
                        json.dump(out, f)
                finally:
                    os._exit(0)
            os.close(w)
            running[r] = [i, pid, time.time(), b""]
        ready, _, _ = select.select(list(running), [], [], 1.0)
        for fd in ready:
            chunk = os.read(fd, 1 << 20)
            if chunk:
                running[fd][3] += chunk
                continue
            i, pid, _, buf = running.pop(fd)
            os.close(fd)
            os.waitpid(pid, 0)
            try:
                results[i] = json.loads(buf.decode()) if buf else {"ok": -1, "error": "worker died without a result"}
            except ValueError:
                results[i] = {"ok": -1, "error": "worker result unreadable"}
        now = time.time()
        for fd in list(running):
            i, pid, start, _ = running[fd]
            if now - start > job_timeout:
                try:
                    os.kill(pid, signal.SIGKILL)
                except ProcessLookupError:
                    pass
                os.waitpid(pid, 0)
                os.close(fd)
                running.pop(fd)
                results[i] = {"ok": -2, "error": f"timeout after {job_timeout}s"}
    return results


def events_for(reaction, n, rng, near_threshold=False):
    t = reaction.transitions[0].topology
    tree = topo.tree_of(t)
    masses = {i: reaction.final_state[i].mass for i in reaction.final_state}
    M = next(iter(reaction.initial_state.values())).mass
    if M <= sum(masses.values()):
        M = sum(masses.values()) + 1.0
    P = numeric.gen_events(tree, masses, M, n, rng, near_threshold=near_threshold)
    return {i: p.tolist() for i, p in P.items()}


def reldiff_q(a, b):
    a, b = np.asarray(a, float), np.asarray(b, float)
    if not (np.all(np.isfinite(a)) and np.all(np.isfinite(b))):
        return 0, 1
    scale = np.maximum(np.abs(a), np.abs(b))
    scale = np.where(scale > 0, scale, 1.0)
    d = float(np.max(np.abs(a - b) / scale))
    return int(min(round(d * 1e9), 2_000_000_000)), 0
