import sys, os, subprocess
sys.path.insert(0, "/tmp/wt_c08/src"); sys.path.insert(1, "/verif/harness")
os.environ["VERIF_REPO_SRC"] = "/tmp/wt_c08/src"
from vf import core
from vf.props import c08
chk = core.Check("C08", "quick", 0, "model_checking")
rec = c08.Recorder(); gen = c08.Gen(chk, rec)
n = gen.chains(1)
print("chains", n, "starts", sum(1 for r in rec.records if r["k"]=="start"), "approx", sum(1 for r in rec.records if r["k"]=="approx"))
tvs = c08.validate(rec.records, 3)
for tv in tvs:
    print(tv.n, tv.stats, len(tv.rejects))
    print([p for p in tv.res.prints if p[0]=="STAT"][:30])
