"""vf — model-based verification harness for ComPWA/ampform (TLA+ specifications under /verif/spec)."""
