------------------------------- MODULE DynSel -------------------------------
(* DynamicsSelector as a state machine (C13): a mapping decay -> dynamics builder.
   Decays 1..NDecays; decay d belongs to the resonance with name index ParentOf(d).
   assign(name, t) changes exactly the decays whose parent has that name; assign(decay, t)
   (or assign((transition, node), t)) changes exactly that decay; nothing else ever
   changes a choice, and Formulate reads it without changing it. *)
EXTENDS Integers, FiniteSets, TLC
CONSTANTS NDecays, NNames, Tags, MaxOps
VARIABLES choice, nops, formulated
vars == <<choice, nops, formulated>>
Decays == 1..NDecays
Names == 1..NNames
ParentOf(d) == ((d - 1) % NNames) + 1

Init == choice = [d \in Decays |-> "none"] /\ nops = 0 /\ formulated = 0
Tick == nops < MaxOps /\ nops' = nops + 1
AssignName(n, t) == /\ Tick /\ choice' = [d \in Decays |-> IF ParentOf(d) = n THEN t ELSE choice[d]]
                    /\ UNCHANGED formulated
\* a name no resonance carries: warning, no change
AssignUnknownName(t) == Tick /\ UNCHANGED <<choice, formulated>>
AssignDecay(d, t) == Tick /\ choice' = [choice EXCEPT ![d] = t] /\ UNCHANGED formulated
AssignTuple(d, t) == AssignDecay(d, t)
Formulate == Tick /\ formulated' = formulated + 1 /\ UNCHANGED choice
Next == \/ \E n \in Names, t \in Tags : AssignName(n, t)
        \/ \E t \in Tags : AssignUnknownName(t)
        \/ \E d \in Decays, t \in Tags : AssignDecay(d, t) \/ AssignTuple(d, t)
        \/ Formulate
Spec == Init /\ [][Next]_vars

TypeOK == choice \in [Decays -> Tags \cup {"none"}]
\* an assignment by name leaves the decays of other resonances alone
NameSelective == [][\A d \in Decays : choice'[d] # choice[d] =>
                       \A e \in Decays : (choice'[e] # choice[e] /\ e # d) => ParentOf(e) = ParentOf(d)]_vars
FormulateReadsOnly == [][formulated' # formulated => choice' = choice]_vars
=============================================================================
