--------------------------- MODULE CacheFS ---------------------------
(***************************************************************************)
(* perform_cached_doit(expr, directory) as a state machine at the grain of *)
(* file-system calls, for several OS processes sharing one directory.      *)
(*                                                                         *)
(* The file system is modelled with inodes: a name is linked to an inode,  *)
(* an open handle refers to the inode (not the name), os.replace re-links  *)
(* a name atomically.  File content is abstract: [src, len] = "the first   *)
(* len of NChunks chunks of the pickle of the cache entry for expression   *)
(* src".  Two expressions may share a key (KeyOf is a constant): with the  *)
(* hash seed unset the key is sha256(str(expr)) and different expressions  *)
(* print identically.                                                      *)
(*                                                                         *)
(* Dev selects named deviations (the pinned tree's behaviour):             *)
(*   "InPlaceWrite"  open(key,"wb") truncates the live file                *)
(*   "UncheckedLoad" whatever unpickles is returned; a short file raises   *)
(*   "CheckThenMkdir" the directory is created by exists() followed by a   *)
(*                   strict mkdir (two steps) instead of one mkdir that    *)
(*                   tolerates an existing directory                       *)
(*   "ProcessMemo"   a process remembers, per key-file name, the unfolding  *)
(*                   it last served from disk and returns it for the next  *)
(*                   call with that file name without looking at the       *)
(*                   directory (variable memo: what survives in the        *)
(*                   interpreter of process p from one call to the next)   *)
(* The cache directory itself may not exist yet (`dir`): every call first  *)
(* makes sure it does, and several first callers may do so at once.        *)
(* With Dev = {} the algorithm is: mkdir (tolerant); stat; on hit open+load and *verify* the *)
(* entry was stored for this very expression, otherwise treat as a miss;   *)
(* on miss doit, write a private temporary file, close, os.replace.        *)
(***************************************************************************)
EXTENDS Integers, Sequences, FiniteSets, TLC

CONSTANTS Procs,      \* process ids
          Exprs,      \* expression ids
          Keys,       \* key-file names
          KeyOf,      \* [Exprs -> Keys]
          TmpOf,      \* [Procs -> names of private temporary files]
          NChunks,    \* a pickle is written in NChunks pieces
          MaxCalls, MaxCrashes, MaxInodes,
          Dev

None == "none"
RAISED == "RAISED"
Tmp(p) == TmpOf[p]
Names == Keys \cup { Tmp(p) : p \in Procs }

VARIABLES link,    \* Names -> 0..MaxInodes          (0 = absent)
          ino,     \* 1..MaxInodes -> [src, len]
          nino,    \* inodes allocated so far
          pc, arg, res,
          rfd,     \* inode open for reading (0 = none)
          wfd,     \* inode open for writing
          woff,    \* chunks written through wfd
          calls, crashes,
          dir,     \* the cache directory exists
          dseen,   \* p -> what p's exists() saw (used by deviation "CheckThenMkdir" only)
          memo     \* p -> key -> expression whose unfolding p's interpreter remembers (deviation "ProcessMemo" only)
vars == <<link, ino, nino, pc, arg, res, rfd, wfd, woff, calls, crashes, dir, dseen, memo>>
procvars == <<pc, arg, res, rfd, wfd, woff>>

Empty == [src |-> None, len |-> 0]

Init == /\ link = [n \in Names |-> 0]
        /\ ino = [i \in 1..MaxInodes |-> Empty]
        /\ nino = 0
        /\ pc = [p \in Procs |-> "idle"]
        /\ arg = [p \in Procs |-> None]
        /\ res = [p \in Procs |-> None]
        /\ rfd = [p \in Procs |-> 0]
        /\ wfd = [p \in Procs |-> 0]
        /\ woff = [p \in Procs |-> 0]
        /\ calls = 0 /\ crashes = 0
        /\ dir \in BOOLEAN
        /\ dseen = [p \in Procs |-> FALSE]
        /\ memo = [p \in Procs |-> [k \in Keys |-> None]]

Key(p) == KeyOf[arg[p]]
Goto(p, l) == pc' = [pc EXCEPT ![p] = l]

Call(p, e) ==
  /\ pc[p] = "idle" /\ calls < MaxCalls
  /\ calls' = calls + 1
  /\ arg' = [arg EXCEPT ![p] = e]
  /\ IF "ProcessMemo" \in Dev /\ memo[p][KeyOf[e]] # None
     THEN res' = [res EXCEPT ![p] = memo[p][KeyOf[e]]] /\ Goto(p, "ret")     \* served from the interpreter's memory
     ELSE res' = [res EXCEPT ![p] = None] /\ Goto(p, "mkdir")
  /\ UNCHANGED <<link, ino, nino, rfd, wfd, woff, crashes, dir, dseen, memo>>

\* cache_directory.mkdir(exist_ok=True, parents=True): whoever comes first creates it, nobody minds
EnsureDir(p) ==
  /\ pc[p] = "mkdir" /\ "CheckThenMkdir" \notin Dev
  /\ dir' = TRUE
  /\ Goto(p, "stat")
  /\ UNCHANGED <<link, ino, nino, arg, res, rfd, wfd, woff, calls, crashes, dseen, memo>>
\* deviation: if not cache_directory.exists(): cache_directory.mkdir()
DirStat(p) ==
  /\ pc[p] = "mkdir" /\ "CheckThenMkdir" \in Dev
  /\ dseen' = [dseen EXCEPT ![p] = dir]
  /\ Goto(p, "mkdir2")
  /\ UNCHANGED <<link, ino, nino, arg, res, rfd, wfd, woff, calls, crashes, dir, memo>>
StrictMkdir(p) ==
  /\ pc[p] = "mkdir2"
  /\ IF dseen[p] THEN Goto(p, "stat") /\ UNCHANGED <<dir, res>>
     ELSE IF dir THEN res' = [res EXCEPT ![p] = RAISED] /\ Goto(p, "ret") /\ UNCHANGED dir   \* FileExistsError
     ELSE dir' = TRUE /\ Goto(p, "stat") /\ UNCHANGED res
  /\ UNCHANGED <<link, ino, nino, arg, rfd, wfd, woff, calls, crashes, dseen, memo>>

\* the directory may hold anything before the first call: a key file left by another program,
\* an older version of the library or a killed writer -- `len` chunks of content that is not a
\* cache entry of any expression ("foreign")
Plant(k, n) ==
  /\ calls = 0 /\ link[k] = 0 /\ nino < MaxInodes /\ n \in 1..NChunks
  /\ nino' = nino + 1
  /\ link' = [link EXCEPT ![k] = nino + 1]
  /\ ino' = [ino EXCEPT ![nino + 1] = [src |-> "foreign", len |-> n]]
  /\ dir                      \* something can only be in a directory that exists
  /\ UNCHANGED <<procvars, calls, crashes, dir, dseen, memo>>

\* filename.exists()
Stat(p) ==
  /\ pc[p] = "stat"
  /\ Goto(p, IF link[Key(p)] # 0 THEN "openr" ELSE "doit")
  /\ UNCHANGED <<link, ino, nino, arg, res, rfd, wfd, woff, calls, crashes, dir, dseen, memo>>

\* open(filename, "rb"): the handle pins the inode
OpenR(p) ==
  /\ pc[p] = "openr"
  /\ link[Key(p)] # 0          \* nothing in the model unlinks a key file
  /\ rfd' = [rfd EXCEPT ![p] = link[Key(p)]]
  /\ Goto(p, "load")
  /\ UNCHANGED <<link, ino, nino, arg, res, wfd, woff, calls, crashes, dir, dseen, memo>>

\* pickle.load + (Dev = {}) verification that the entry belongs to this expression
Load(p) ==
  /\ pc[p] = "load"
  /\ LET c == ino[rfd[p]]
         complete == c.src # None /\ c.len = NChunks
     IN IF "UncheckedLoad" \in Dev
        THEN /\ res' = [res EXCEPT ![p] = IF complete THEN c.src ELSE RAISED]
             /\ Goto(p, "ret")
        ELSE IF complete /\ c.src = arg[p]
             THEN res' = [res EXCEPT ![p] = arg[p]] /\ Goto(p, "ret")
             ELSE res' = res /\ Goto(p, "doit")   \* unreadable or foreign entry = miss
  /\ rfd' = [rfd EXCEPT ![p] = 0]
  /\ memo' = IF "ProcessMemo" \in Dev /\ "UncheckedLoad" \notin Dev /\ ino[rfd[p]].src = arg[p] /\ ino[rfd[p]].len = NChunks
             THEN [memo EXCEPT ![p][Key(p)] = arg[p]] ELSE memo
  /\ UNCHANGED <<link, ino, nino, arg, wfd, woff, calls, crashes, dir, dseen>>

\* unevaluated_expr.doit() -- no file-system effect
Doit(p) ==
  /\ pc[p] = "doit"
  /\ Goto(p, "openw")
  /\ UNCHANGED <<link, ino, nino, arg, res, rfd, wfd, woff, calls, crashes, dir, dseen, memo>>

WTarget(p) == IF "InPlaceWrite" \in Dev THEN Key(p) ELSE Tmp(p)

\* open(target, "wb"): create a fresh inode, or truncate the existing one in place
OpenW(p) ==
  /\ pc[p] = "openw"
  /\ LET n == WTarget(p) IN
       IF link[n] = 0
       THEN /\ nino < MaxInodes
            /\ nino' = nino + 1
            /\ link' = [link EXCEPT ![n] = nino + 1]
            /\ ino' = [ino EXCEPT ![nino + 1] = [src |-> arg[p], len |-> 0]]
            /\ wfd' = [wfd EXCEPT ![p] = nino + 1]
       ELSE /\ ino' = [ino EXCEPT ![link[n]] = [src |-> arg[p], len |-> 0]]
            /\ wfd' = [wfd EXCEPT ![p] = link[n]]
            /\ UNCHANGED <<nino, link>>
  /\ woff' = [woff EXCEPT ![p] = 0]
  /\ Goto(p, "write")
  /\ UNCHANGED <<arg, res, rfd, calls, crashes, dir, dseen, memo>>

\* one chunk reaches the inode (positional write at this handle's offset)
Write(p) ==
  /\ pc[p] = "write" /\ woff[p] < NChunks
  /\ woff' = [woff EXCEPT ![p] = woff[p] + 1]
  /\ ino' = [ino EXCEPT ![wfd[p]] =
               [src |-> arg[p], len |-> IF @.len > woff[p] + 1 THEN @.len ELSE woff[p] + 1]]
  /\ UNCHANGED <<link, nino, pc, arg, res, rfd, wfd, calls, crashes, dir, dseen, memo>>

Close(p) ==
  /\ pc[p] = "write" /\ woff[p] = NChunks
  /\ wfd' = [wfd EXCEPT ![p] = 0]
  /\ IF "InPlaceWrite" \in Dev
     THEN res' = [res EXCEPT ![p] = arg[p]] /\ Goto(p, "ret")
     ELSE res' = res /\ Goto(p, "replace")
  /\ UNCHANGED <<link, ino, nino, arg, rfd, woff, calls, crashes, dir, dseen, memo>>

\* os.replace(tmp, key): atomic re-link; readers holding the old inode are unaffected
Replace(p) ==
  /\ pc[p] = "replace"
  /\ link' = [link EXCEPT ![Key(p)] = link[Tmp(p)], ![Tmp(p)] = 0]
  /\ res' = [res EXCEPT ![p] = arg[p]]
  /\ Goto(p, "ret")
  /\ UNCHANGED <<ino, nino, arg, rfd, wfd, woff, calls, crashes, dir, dseen, memo>>

\* the call returns res[p] (or raises when res[p] = RAISED) to its caller
Return(p) ==
  /\ pc[p] = "ret"
  /\ Goto(p, "idle")
  /\ UNCHANGED <<link, ino, nino, arg, res, rfd, wfd, woff, calls, crashes, dir, dseen, memo>>

\* the process is killed anywhere inside a call; its handles vanish, the inodes stay
Crash(p) ==
  /\ pc[p] # "idle" /\ crashes < MaxCrashes
  /\ crashes' = crashes + 1
  /\ pc' = [pc EXCEPT ![p] = "idle"]
  /\ res' = [res EXCEPT ![p] = None]
  /\ rfd' = [rfd EXCEPT ![p] = 0] /\ wfd' = [wfd EXCEPT ![p] = 0]
  \* Tmp(p) names the private temporary file of p's call in flight; the real names are
  \* unique per call, so an orphaned one is never opened again: the model forgets it.
  /\ link' = [link EXCEPT ![Tmp(p)] = 0]
  /\ memo' = [memo EXCEPT ![p] = [k \in Keys |-> None]]     \* the interpreter is gone
  /\ UNCHANGED <<ino, nino, arg, woff, calls, dir, dseen>>

Step(p) == \/ EnsureDir(p) \/ DirStat(p) \/ StrictMkdir(p) \/ Stat(p) \/ OpenR(p) \/ Load(p) \/ Doit(p) \/ OpenW(p)
           \/ Write(p) \/ Close(p) \/ Replace(p) \/ Return(p) \/ Crash(p)
Next == \/ \E p \in Procs : (\E e \in Exprs : Call(p, e)) \/ Step(p)
        \/ \E k \in Keys, n \in 1..NChunks : Plant(k, n)
Spec == Init /\ [][Next]_vars

----------------------------------------------------------------------------
TypeOK == /\ \A n \in Names : link[n] \in 0..nino
          /\ \A p \in Procs : pc[p] \in {"idle","mkdir","mkdir2","stat","openr","load","doit","openw","write","replace","ret"}
          /\ dir \in BOOLEAN

\* C16: whatever the directory has seen, a returning call returns doit() of its own argument
ReturnsDoit == \A p \in Procs : pc[p] = "ret" /\ res[p] # RAISED => res[p] = arg[p]
NeverRaises == \A p \in Procs : res[p] # RAISED

\* files live in a directory that exists
DirHoldsFiles == ((\E n \in Names : link[n] # 0) \/ (\E p \in Procs : pc[p] \notin {"idle", "mkdir", "mkdir2", "ret"})) => dir

\* design invariant of the atomic-replace algorithm: a key file is never observable half-written
KeyFilesComplete ==
  Dev = {} => \A k \in Keys : (link[k] # 0 /\ ino[link[k]].src # "foreign") => ino[link[k]].len = NChunks
=============================================================================
