--------------------------- MODULE ExprAlgebra ---------------------------
(***************************************************************************)
(* The term algebra behind ampform's expression classes (C14, C15, C18).   *)
(*                                                                         *)
(* A term is a record of one fixed shape (so that TLC can compare, sort    *)
(* and fingerprint arbitrary mixtures of terms):                           *)
(*                                                                         *)
(*   [k, h, a, at, ix, bg]                                                 *)
(*     k  = "leaf"  a symbol, h = its name                                 *)
(*          "val"   a rational label, h = its literal ("1", "-1/2", ...)   *)
(*          "node"  h(a[1], ..., a[n]) with non-SymPy attributes at: h is  *)
(*                  an expression class (a member of EvalClasses unfolds   *)
(*                  under doit, any other head is uninterpreted: f, g, a   *)
(*                  class without evaluate())                              *)
(*          "unf"   the definition of class h applied to (unfolded)        *)
(*                  arguments a with attributes at: what doit() returns.   *)
(*                  The definition is not interpreted; all that is used is *)
(*                  that it is a template in its arguments (naturality).   *)
(*          "pool"  PoolSum(a[1], ix[1], ..., ix[m]),                      *)
(*                  ix[n] = <<index symbol, <<value labels>>>>             *)
(*          "sum"   a finite sum, bg = its bag: a set of <<term, count>>   *)
(*                  with pairwise different terms and count > 0            *)
(*                                                                         *)
(* Eval gives pool sums their meaning with an *environment* (index symbol  *)
(* -> value); it does not use substitution, so that "evaluation commutes   *)
(* with substitution", "cleanup keeps the value", "free symbols", "an      *)
(* index is bound" are laws TLC checks, not definitions.                   *)
(*                                                                         *)
(* Dev selects named deviations (behaviour the library had on the pinned   *)
(* tree); with Dev = {} the operators state what the properties require.   *)
(*   "BoundIndexSubs"   substitution rewrites bound occurrences of an index*)
(*   "DropUnusedIndex"  cleanup drops an index that does not occur in the  *)
(*                      summand whatever the size of its pool              *)
(*   "DeepAstuple"      substitution into a node with non-SymPy attributes *)
(*                      flattens nested nodes to plain tuples              *)
(*   "DropIndexUnusedAfterSubst"  cleanup decides "does not occur" on the  *)
(*                      summand *after* the single-valued indices were     *)
(*                      substituted (an index can drop out of Z(0, j))     *)
(*                                                                         *)
(* One head is interpreted: Z(a, b) is zero as soon as one argument is     *)
(* zero (what a product does).  SymPy evaluates this when the object is    *)
(* constructed, so every operation that rebuilds a node normalises it, and *)
(* zero summands vanish from sums.  With it a term can lose a symbol by a  *)
(* substitution of *another* symbol, which no free head can express.       *)
(***************************************************************************)
EXTENDS Integers, Sequences, FiniteSets, TLC

CONSTANTS EvalClasses,   \* heads whose doit() unfolds a definition
          Dev

Mk(k, h, a, at, ix, bg) == [k |-> k, h |-> h, a |-> a, at |-> at, ix |-> ix, bg |-> bg]
Leaf(s)            == Mk("leaf", s, <<>>, <<>>, <<>>, {})
Val(v)             == Mk("val", v, <<>>, <<>>, <<>>, {})
Node(c, args, att) == Mk("node", c, args, att, <<>>, {})
Unf(c, args, att)  == Mk("unf", c, args, att, <<>>, {})
Pool(body, ix)     == Mk("pool", "", <<body>>, <<>>, ix, {})
SumT(bag)          == Mk("sum", "", <<>>, <<>>, <<>>, bag)
Absorbing == {"Z"}
Zero == Val("0")
NormNode(t) == IF t.k = "node" /\ t.h \in Absorbing /\ \E n \in DOMAIN t.a : t.a[n] = Zero THEN Zero ELSE t

Range(f) == { f[x] : x \in DOMAIN f }
Body(t)  == t.a[1]
IdxSyms(t) == { t.ix[n][1] : n \in DOMAIN t.ix }

\* ---- bags as sets of <<element, count>> ---------------------------------------
RECURSIVE SumOver(_, _)
SumOver(f, S) == IF S = {} THEN 0
                 ELSE LET x == CHOOSE y \in S : TRUE IN f[x] + SumOver(f, S \ {x})
BagCount(b, e) == IF \E p \in b : p[1] = e THEN (CHOOSE p \in b : p[1] = e)[2] ELSE 0
BagOf(t)  == IF t.k = "sum" THEN t.bg ELSE IF t = Zero THEN {} ELSE { <<t, 1>> }
\* a set of <<multiplier, bag>> pairs (pairwise different) -> the bag of their weighted union
BagJoin(parts) ==
  LET elems == UNION { { q[1] : q \in p[2] } : p \in parts }
  IN { <<e, SumOver([p \in parts |-> p[1] * BagCount(p[2], e)], parts)>> : e \in elems }
\* the canonical term of a bag: nested sums are flattened (Add is associative), a bag with a
\* single element of count 1 is that element
\* every element e of bag b replaced by the bag F(e), counts multiplied and added up (two elements may have the
\* same image: a substitution x -> y maps f(x) and f(y) to the same term)
BagFlatMap(b, F(_)) ==
  LET src   == { p[1] : p \in b }
      elems == UNION { { q[1] : q \in F(e) } : e \in src }
  IN { <<x, SumOver([e \in src |-> BagCount(b, e) * BagCount(F(e), x)], src)>> : x \in elems }
NormSum(b) ==
  LET fb == BagFlatMap(b, BagOf)
  IN IF fb = {} THEN Zero
     ELSE IF Cardinality(fb) = 1 /\ (CHOOSE p \in fb : TRUE)[2] = 1
     THEN (CHOOSE p \in fb : TRUE)[1] ELSE SumT(fb)
\* image of a bag under a map given as a function on its elements
BagImage(b, img) == BagFlatMap(b, LAMBDA e : BagOf(img[e]))

\* ---- symbols -----------------------------------------------------------------------
RECURSIVE FreeSyms(_)
FreeSyms(t) ==
  CASE t.k = "leaf" -> {t.h}
    [] t.k = "val"  -> {}
    [] t.k \in {"node", "unf"} -> UNION { FreeSyms(t.a[n]) : n \in DOMAIN t.a }
    [] t.k = "pool" -> FreeSyms(Body(t)) \ IdxSyms(t)
    [] t.k = "sum"  -> UNION { FreeSyms(p[1]) : p \in t.bg }

RECURSIVE BoundSyms(_)
BoundSyms(t) ==
  CASE t.k \in {"leaf", "val"} -> {}
    [] t.k \in {"node", "unf"} -> UNION { BoundSyms(t.a[n]) : n \in DOMAIN t.a }
    [] t.k = "pool" -> IdxSyms(t) \cup BoundSyms(Body(t))
    [] t.k = "sum"  -> UNION { BoundSyms(p[1]) : p \in t.bg }

RECURSIVE Depth(_)
Depth(t) ==
  CASE t.k \in {"leaf", "val"} -> 0
    [] t.k \in {"node", "unf", "pool"} ->
         1 + (LET ds == { Depth(t.a[n]) : n \in DOMAIN t.a } IN
              IF ds = {} THEN 0 ELSE CHOOSE d \in ds : \A e \in ds : e <= d)
    [] t.k = "sum" -> LET ds == { Depth(p[1]) : p \in t.bg } IN
                      IF ds = {} THEN 0 ELSE CHOOSE d \in ds : \A e \in ds : e <= d

RECURSIVE SubTerms(_)
SubTerms(t) ==
  {t} \cup (CASE t.k \in {"leaf", "val"} -> {}
              [] t.k \in {"node", "unf", "pool"} -> UNION { SubTerms(t.a[n]) : n \in DOMAIN t.a }
              [] t.k = "sum" -> UNION { SubTerms(p[1]) : p \in t.bg })

\* ---- substitution --------------------------------------------------------------------
\* A map is a sequence of <<key term, replacement term>> with pairwise different keys; it is
\* applied simultaneously, outermost match first (xreplace; subs(old, new) is the one-pair map).
MapKeys(m) == { m[n][1] : n \in DOMAIN m }
Lookup(m, t) == (CHOOSE p \in Range(m) : p[1] = t)[2]

\* the "DeepAstuple" deviation: a nested node seen through dataclasses.astuple
Flatten(t) == IF t.k = "node" THEN Node("tuple", t.a \o [n \in DOMAIN t.at |-> Leaf(t.at[n])], <<>>) ELSE t

RECURSIVE Subst(_, _)
Subst(t, m) ==
  IF m = <<>> THEN t
  ELSE IF t \in MapKeys(m) THEN Lookup(m, t)
  ELSE CASE t.k \in {"leaf", "val"} -> t
    [] t.k \in {"node", "unf"} ->
         \* homomorphism: descends into nested (unevaluated) arguments, keeps class and
         \* non-SymPy attributes
         LET new == [n \in DOMAIN t.a |-> Subst(t.a[n], m)] IN
         IF "DeepAstuple" \in Dev /\ t.at # <<>> /\ new # t.a
         THEN [t EXCEPT !.a = [n \in DOMAIN t.a |-> Subst(Flatten(t.a[n]), m)]]
         ELSE NormNode([t EXCEPT !.a = new])
    [] t.k = "pool" ->
         \* the indices are bound: pairs whose key is an index are dropped inside
         LET keep == IF "BoundIndexSubs" \in Dev THEN m
                     ELSE SelectSeq(m, LAMBDA p : ~ (p[1].k = "leaf" /\ p[1].h \in IdxSyms(t)))
         IN [t EXCEPT !.a = <<Subst(Body(t), keep)>>]
    [] t.k = "sum" ->
         NormSum(BagImage(t.bg, [e \in { p[1] : p \in t.bg } |-> Subst(e, m)]))

\* a map may be applied to t without capture / without touching binding structure
MapSyms(m) == UNION { FreeSyms(m[n][2]) : n \in DOMAIN m }
CompoundKeySyms(m) == UNION { IF m[n][1].k = "leaf" THEN {} ELSE FreeSyms(m[n][1]) : n \in DOMAIN m }
Admissible(t, m) == (MapSyms(m) \cup CompoundKeySyms(m)) \cap BoundSyms(t) = {}

\* ---- evaluation (doit) -------------------------------------------------------------
Override(env, t, combo) ==
  [s \in DOMAIN env \cup IdxSyms(t) |->
     IF s \in IdxSyms(t)
     THEN LET n == CHOOSE j \in DOMAIN t.ix : t.ix[j][1] = s /\ \A l \in DOMAIN t.ix : t.ix[l][1] = s => l <= j
          IN t.ix[n][2][combo[n]]
     ELSE env[s]]
\* one choice of a *position* in every pool: duplicates in a pool count twice
Combos(t) == { c \in [DOMAIN t.ix -> 1..8] : \A n \in DOMAIN t.ix : c[n] <= Len(t.ix[n][2]) }

RECURSIVE Eval(_, _)
Eval(t, env) ==
  CASE t.k = "leaf" -> IF t.h \in DOMAIN env THEN Val(env[t.h]) ELSE t
    [] t.k = "val"  -> t
    [] t.k = "node" ->
         LET args == [n \in DOMAIN t.a |-> Eval(t.a[n], env)] IN
         IF t.h \in EvalClasses THEN Unf(t.h, args, t.at) ELSE NormNode(Node(t.h, args, t.at))
    [] t.k = "unf"  -> [t EXCEPT !.a = [n \in DOMAIN t.a |-> Eval(t.a[n], env)]]
    [] t.k = "pool" ->
         \* the finite sum over the cartesian product of the pools; an inner index shadows
         \* an outer one because the environment is overridden on the way down
         LET bagAt == [c \in Combos(t) |-> BagOf(Eval(Body(t), Override(env, t, c)))]
             bags  == Range(bagAt)
         IN NormSum(BagJoin({ <<Cardinality({ c \in Combos(t) : bagAt[c] = b }), b>> : b \in bags }))
    [] t.k = "sum"  ->
         NormSum(BagImage(t.bg, [e \in { p[1] : p \in t.bg } |-> Eval(e, env)]))

EmptyEnv == [s \in {} |-> ""]
Doit(t)   == Eval(t, EmptyEnv)
Denote(t) == BagOf(Doit(t))      \* the bag of (unfolded) summand instances

\* ---- the other operations -----------------------------------------------------------
Rebuild(t)  == t                 \* rebuilding from the own args, all-SymPy classes
PickleRT(t) == t                 \* pickle.loads(pickle.dumps(t)), same or fresh process
EqT(t, u)   == t.k = u.k /\ t.h = u.h /\ t.a = u.a /\ t.at = u.at /\ t.ix = u.ix /\ t.bg = u.bg

\* cleanup of a pool sum: an index with a single value is substituted, an index that does
\* not occur (free) in the summand and has a single value is dropped; nothing else is
\* redundant.  No indices left: the summand itself.
RECURSIVE AsMap(_, _)
AsMap(sub, S) == IF S = {} THEN <<>>
                 ELSE LET s == CHOOSE x \in S : TRUE IN <<<<Leaf(s), Val(sub[s])>>>> \o AsMap(sub, S \ {s})
Cleanup(t) ==
  IF t.k # "pool" THEN t
  ELSE LET single(n) == Len(t.ix[n][2]) = 1
           unused(n)  == t.ix[n][1] \notin FreeSyms(Body(t))
           sub0 == [s \in { t.ix[n][1] : n \in { j \in DOMAIN t.ix : single(j) } } |->
                      LET n == CHOOSE j \in DOMAIN t.ix : t.ix[j][1] = s /\ single(j) IN t.ix[n][2][1]]
           unusedAfter(n) == t.ix[n][1] \notin FreeSyms(Subst(Body(t), AsMap(sub0, DOMAIN sub0)))
           drop(n)    == single(n) \/ ("DropUnusedIndex" \in Dev /\ unused(n))
                                   \/ ("DropIndexUnusedAfterSubst" \in Dev /\ unusedAfter(n))
           sub  == [s \in { t.ix[n][1] : n \in { j \in DOMAIN t.ix : single(j) } } |->
                      LET n == CHOOSE j \in DOMAIN t.ix : t.ix[j][1] = s /\ single(j) IN t.ix[n][2][1]]
           keepIx == SelectSeq([n \in DOMAIN t.ix |-> <<n, t.ix[n]>>], LAMBDA p : ~ drop(p[1]))
           newIx  == [n \in DOMAIN keepIx |-> keepIx[n][2]]
           newBody == Subst(Body(t), AsMap(sub, DOMAIN sub))
       IN IF newIx = <<>> THEN newBody ELSE Pool(newBody, newIx)

\* distinct index symbols inside one pool sum (the statement does not say what a repeated
\* index means), non-empty pools
RECURSIVE WellFormed(_)
WellFormed(t) ==
  CASE t.k \in {"leaf", "val"} -> TRUE
    [] t.k \in {"node", "unf"} -> \A n \in DOMAIN t.a : WellFormed(t.a[n])
    [] t.k = "pool" -> /\ WellFormed(Body(t))
                       /\ \A n, l \in DOMAIN t.ix : n # l => t.ix[n][1] # t.ix[l][1]
                       /\ \A n \in DOMAIN t.ix : Len(t.ix[n][2]) >= 1
    [] t.k = "sum" -> \A p \in t.bg : WellFormed(p[1]) /\ p[2] > 0

\* ---- the laws (evaluated by ExprOps in every reachable state, by Trace_Expr on records) ----
\* C14 / C18: substitution of symbols commutes with evaluation.  Exactly, when the replacement
\* terms are themselves unfolded; up to a further unfolding when a replacement is a folded
\* (unevaluated) term.  A compound key does not survive unfolding, so the law speaks about
\* symbol keys only.
LeafKeyed(m) == \A key \in MapKeys(m) : key.k = "leaf"
UnfoldedRepl(m) == \A x \in DOMAIN m : Doit(m[x][2]) = m[x][2]
\* the part of a map that speaks about free symbols of t: a key that only occurs bound in t
\* (a summation index) must not matter, whatever else the map contains
RestrictFree(m, t) == SelectSeq(m, LAMBDA p : p[1].k # "leaf" \/ p[1].h \in FreeSyms(t))
LawSubstEval(t, m) ==
  (Admissible(t, m) /\ LeafKeyed(m)) =>
     /\ Doit(Subst(t, m)) = Doit(Subst(Doit(t), m))
     /\ Doit(Subst(t, m)) = Doit(Subst(Doit(t), RestrictFree(m, t)))
     /\ Subst(t, m) = Subst(t, RestrictFree(m, t))
     /\ UnfoldedRepl(m) => Doit(Subst(t, m)) = Subst(Doit(t), m)
\* C18: a substitution for a symbol that only occurs bound leaves the sum unchanged
LawBoundIdentity(t, m) ==
  (\A k \in MapKeys(m) : k.k = "leaf" /\ k.h \notin FreeSyms(t)) => Subst(t, m) = t
\* C18: cleanup keeps the value
LawCleanup(t) == Doit(Cleanup(t)) = Doit(t)
\* C18: free symbols = those of the summand minus the indices = those that survive evaluation
\* (with the interpreted head a symbol can vanish in the evaluation: then only "no new symbol appears")
FreeAlgebra(t) == \A u \in SubTerms(t) : ~ (u.k = "node" /\ u.h \in Absorbing)
SameFree(t, a, b) == a \subseteq b /\ (FreeAlgebra(t) => a = b)
LawFree(t) == SameFree(t, FreeSyms(Doit(t)), FreeSyms(t))
\* C14: substitution is a homomorphism on nodes: class and attributes kept, arguments mapped
LawHomomorphism(t, m) ==
  (t.k = "node" /\ t.h \notin Absorbing /\ t \notin MapKeys(m)) =>
     LET r == Subst(t, m) IN
     r.k = "node" /\ r.h = t.h /\ r.at = t.at /\ Len(r.a) = Len(t.a) /\
     \A n \in DOMAIN t.a : r.a[n] = Subst(t.a[n], m)
\* C14: unfolding twice is unfolding once, and nothing foldable is left after unfolding
LawDoitIdem(t) == Doit(Doit(t)) = Doit(t)
RECURSIVE Folded(_)
Folded(t) ==
  CASE t.k \in {"leaf", "val"} -> FALSE
    [] t.k = "node" -> t.h \in EvalClasses \/ \E x \in DOMAIN t.a : Folded(t.a[x])
    [] t.k = "unf"  -> \E x \in DOMAIN t.a : Folded(t.a[x])
    [] t.k = "pool" -> TRUE
    [] t.k = "sum"  -> \E p \in t.bg : Folded(p[1])
LawDoitUnfoldsAll(t) == ~ Folded(Doit(t))
=============================================================================
