"""C20 — phase-space boundary functions classify three-body kinematics correctly.

spec/PhaseSpace3.tla (Kallen, Kibble, third Mandelstam, PDG Dalitz limits in discriminant form,
four-vector invariants) is (1) model-checked on its own lattices with TLC (PhaseSpace3_MC: Kibble <= 0
<=> inside the PDG limits, s1*Kibble = m0^2*Disc, Kallen symmetry/factorisation, events), (2) the
oracle of Trace_C20: the real Kibble / compute_third_mandelstam / is_within_phasespace / Kallen are
evaluated exactly (SymPy rationals and square roots of integers) at integer four-vector events and
at every integer point of bounding boxes, logged as integers, and TLC recomputes every expected value
and evaluates the property's clauses; (3) TLAPS lemmas (thorough tier)."""
from __future__ import annotations

import multiprocessing as mp
import os
import random
import shutil
import signal
import subprocess
import tempfile
import time
from concurrent.futures import ThreadPoolExecutor
from fractions import Fraction
from pathlib import Path

from .. import ps3_common as ps
from .. import tlc, trace
from ..core import Machinery

LEVEL = "model_checking"
META = {
    "technique": "TLA+ reference PhaseSpace3 (Kallen, Kibble, third Mandelstam, PDG Dalitz limits as a discriminant, "
    "invariants of integer four-vectors) model-checked exhaustively with TLC on integer lattices; the real "
    "ampform functions evaluated exactly (SymPy) on integer four-vector events and on every integer point of "
    "bounding boxes, logged as integers and judged by the trace specification Trace_C20 with TLC; TLAPS lemmas",
    "text": "TLC decides: the specification computes sigma3 from the four-vectors, its own Kibble value and the PDG limits "
    "(discriminant form, exact 32-bit integer arithmetic) for every logged point and compares with what "
    "compute_third_mandelstam / Kibble.doit() / is_within_phasespace(outside_value=o) / Kallen.doit() returned, "
    "exhaustively over all integer (sigma1, sigma2) of the bounding boxes of integer mass configurations "
    "(m0 <= 7), over stratified lattice events (massless, equal masses, boundary) and over the same points rescaled to "
    "mass scales 1/1000, 1/100000, 1000 (the property is scale invariant); the reference itself is "
    "model-checked on the whole lattice (Kibble <= 0 <=> inside PDG limits for every integer configuration with m0 <= 5 (quick) / 9 (thorough); sigma1*Kibble = m0^2*Disc).",
    "note": "Trusted: TLC/SANY, SymPy exact arithmetic for evaluating the implementation, the projection to integers "
    "(ps3_common.enc_*). Bounds: integer masses m0 <= 7 (quick: the 35 configurations with m0 <= 4 and 14 more up to m0 = 7; thorough: all 210) and integer "
    "(sigma1, sigma2) — half-integer points are the integer points of the doubled configuration; events from "
    "integer four-vectors with E <= 3, |p_x,y,z| <= 2, m0^2 <= 49; the edge sigma1 = 0 (m2 = m3 = 0), where the PDG "
    "limits are 0/0, is excluded from the 'exactly when' clause. TLAPS: Kallen lemmas proved; the degree-9 identity "
    "sigma1*Kibble = m0^2*Disc is attempted under a timeout and otherwise only model-checked.",
    "design_ref": "DESIGN.md §4 C20",
}

MC_CFG = """SPECIFICATION Spec
CONSTANTS
 MaxM0 = {maxm0}
 KalR = {kalr}
 KalB = {kalb}
 VecE = 2
 VecP = 1
INVARIANT TypeOK
INVARIANT LawKibbleIffPDG
INVARIANT LawKibbleDiscIdentity
INVARIANT LawPDGDefinedInBox
INVARIANT LawKallen
INVARIANT LawEvents
CHECK_DEADLOCK FALSE
"""

OV_NAMES = ["default", "0", "-1", "5/2", "nan", "-7/3"]
ONE = [0, 1, 1]
_I = None


def _impl():
    global _I
    if _I is None:
        import sympy as sp
        from ampform.kinematics import phasespace as psm

        ov = {"0": sp.Integer(0), "-1": sp.Integer(-1), "5/2": sp.Rational(5, 2), "nan": sp.nan, "-7/3": sp.Rational(-7, 3)}
        _I = (sp, psm, ov)
    return _I


def _enc_real(sp, v):
    """exact rational -> [num, den]; any other real -> clamped with its sign; undecidable -> +INT_MAX."""
    v = sp.sympify(v)
    if v.is_Rational:
        return ps.enc_rat(v)
    try:
        if v.is_real and (v < 0) == True:  # noqa: E712
            return [-ps.INT_MAX, 1]
    except TypeError:
        pass
    return [ps.INT_MAX, 1]


SCALES = [(1, 1000), (1, 100000), (1000, 1)]  # mass scale factors num/den of the scaled family


ROLES = [None, (1, 2, 3), (2, 3, 1), (3, 1, 2), (2, 1, 3), (1, 3, 2), (3, 2, 1)]


def _outputs_symbolic(s1, s2, masses, ovname, roles):
    """The same point through a SYMBOLIC formulation: the functions are called with the conventional symbols sigma1..3, m0..3 -
    particle `roles[k]` in call position k+1 (the Dalitz region in (sigma2, sigma3), ...) -, unfolded, and only then given
    their values (all at once).  Three-body kinematics does not care which particle is called 1."""
    sp, psm, ov = _impl()
    # (plain symbols, as the documentation writes them)
    sig = dict(zip((1, 2, 3), sp.symbols("sigma1:4")))
    ms = dict(zip((0, 1, 2, 3), sp.symbols("m:4")))
    a, b, c = roles
    exc = ""
    try:
        s3 = psm.compute_third_mandelstam(s1, s2, *masses)   # (value of the third variable for the map; its own clause is judged numerically)
    except Exception as e:  # noqa: BLE001
        s3, exc = sp.zoo, f"compute_third_mandelstam:{type(e).__name__}"
    vals = {sig[a]: s1, sig[b]: s2, sig[c]: s3, ms[0]: masses[0], ms[a]: masses[1], ms[b]: masses[2], ms[c]: masses[3]}
    try:
        s3sym = psm.compute_third_mandelstam(sig[a], sig[b], ms[0], ms[a], ms[b], ms[c])
        s3v = sp.sympify(s3sym).subs(vals, simultaneous=True)
    except Exception as e:  # noqa: BLE001
        s3v, exc = sp.zoo, exc or f"compute_third_mandelstam:{type(e).__name__}"
    try:
        kib = psm.Kibble(sig[a], sig[b], sig[c], ms[0], ms[a], ms[b], ms[c]).doit().subs(vals, simultaneous=True)
    except Exception as e:  # noqa: BLE001
        kib, exc = sp.zoo, exc or f"Kibble:{type(e).__name__}"
    o = sp.nan if ovname == "default" else ov[ovname]
    try:
        args = (sig[a], sig[b], ms[0], ms[a], ms[b], ms[c])
        ind = psm.is_within_phasespace(*args) if ovname == "default" else psm.is_within_phasespace(*args, outside_value=o)
        ind = ind.doit().subs(vals, simultaneous=True).doit()
    except Exception as e:  # noqa: BLE001
        ind, exc = sp.zoo, exc or f"is_within_phasespace:{type(e).__name__}"
    return {"s3": _enc_real(sp, s3v), "kib": _enc_real(sp, kib), "ind": ps.enc_val(ind), "ov": ps.enc_val(o), "ovname": ovname, "sc": [1, 1], "exc": exc}


def _outputs(s1, s2, masses, ovname, scale=(1, 1)):
    """Outputs of the implementation at the point scaled by lam = num/den (masses * lam, sigma * lam^2,
    exact rationals / surds).  sigma3 and Kibble are homogeneous (degree 2 and 8 in the masses) and are
    logged unscaled, the indicator is scale invariant: TLC judges on the integer point."""
    sp, psm, ov = _impl()
    lam = sp.Rational(*scale)
    if lam != 1:
        s1, s2, masses = s1 * lam**2, s2 * lam**2, [m * lam for m in masses]
    # an exception at a legitimate input is logged as "no value" (it then fails the clauses that need the value)
    exc = ""
    try:
        s3 = psm.compute_third_mandelstam(s1, s2, *masses)
    except Exception as e:  # noqa: BLE001
        s3, exc = sp.zoo, f"compute_third_mandelstam:{type(e).__name__}"
    try:
        kib = psm.Kibble(s1, s2, s3, *masses).doit()
    except Exception as e:  # noqa: BLE001
        kib, exc = sp.zoo, exc or f"Kibble:{type(e).__name__}"
    o = sp.nan if ovname == "default" else ov[ovname]
    try:
        ind = psm.is_within_phasespace(s1, s2, *masses) if ovname == "default" else psm.is_within_phasespace(s1, s2, *masses, outside_value=o)
        ind = ind.doit()
    except Exception as e:  # noqa: BLE001
        ind, exc = sp.zoo, exc or f"is_within_phasespace:{type(e).__name__}"
    if lam != 1:
        s3, kib = s3 / lam**2, kib / lam**8
    return {"s3": _enc_real(sp, s3), "kib": _enc_real(sp, kib), "ind": ps.enc_val(ind), "ov": ps.enc_val(o), "ovname": ovname, "sc": list(scale), "exc": exc}


def _kallen(sp, psm, x, y, z):
    try:
        return psm.Kallen(x, y, z).doit()
    except Exception:  # noqa: BLE001 - "no value": fails the Kallen clauses
        return sp.zoo


def evaluate(job):
    """Run the implementation at one lattice point; returns the trace record."""
    sp, psm, _ = _impl()
    fam, rid = job[0], job[1]
    if fam == "ev":
        ev, ovname = job[2], job[3]
        scale = job[4] if len(job) > 4 else (1, 1)
        M, S = ps.invariants(ev)
        masses = [sp.sqrt(sp.Integer(x)) for x in M]
        sym = job[5] if len(job) > 5 else 0
        rec = {"k": "ev", "id": rid, "p": [list(p) for p in ev], "M": list(M), "s": [S[0], S[1]], "sym": sym}
        rec.update(_outputs_symbolic(sp.Integer(S[0]), sp.Integer(S[1]), masses, ovname, ROLES[sym]) if sym else _outputs(sp.Integer(S[0]), sp.Integer(S[1]), masses, ovname, scale))
        return rec
    if fam == "box":
        m, s1, s2, ovname = job[2], job[3], job[4], job[5]
        scale = job[6] if len(job) > 6 else (1, 1)
        sym = job[7] if len(job) > 7 else 0
        rec = {"k": "box", "id": rid, "m": list(m), "s": [s1, s2], "sym": sym}
        rec.update(_outputs_symbolic(sp.Integer(s1), sp.Integer(s2), [sp.Integer(x) for x in m], ovname, ROLES[sym]) if sym else _outputs(sp.Integer(s1), sp.Integer(s2), [sp.Integer(x) for x in m], ovname, scale))
        return rec
    if fam == "kal":
        a, d = job[2], job[3]
        x, y, z = (sp.Rational(v, d) for v in a)
        perms = [(x, y, z), (y, x, z), (x, z, y), (z, y, x), (y, z, x), (z, x, y)]
        return {"k": "kal", "id": rid, "a": list(a), "d": d, "vals": [_enc_real(sp, _kallen(sp, psm, *p)) for p in perms]}
    if fam == "kaf":
        (x, b, c), e = job[2], job[3]
        v = _kallen(sp, psm, sp.Rational(x, e * e), sp.Rational(b, e) ** 2, sp.Rational(c, e) ** 2)
        return {"k": "kaf", "id": rid, "a": [x, b, c], "e": e, "val": _enc_real(sp, v)}
    raise Machinery(f"unknown job family {fam}")


def _tuplify(x):
    return tuple(_tuplify(v) for v in x) if isinstance(x, (list, tuple)) else x


def build_jobs(tier: str, rng: random.Random) -> list[tuple]:
    jobs = []
    rid = 0
    configs = ps.mass_configs(7) if tier == "thorough" else sorted(set(ps.mass_configs(4)) | set(ps.QUICK_CONFIGS))
    for m in configs:
        r1, r2 = ps.box(m)
        for s1 in r1:
            for s2 in r2:
                rid += 1
                jobs.append(("box", rid, m, s1, s2, OV_NAMES[(rid + s1) % len(OV_NAMES)]))
    for ev in ps.gen_events(4000 if tier == "thorough" else 600, rng):
        rid += 1
        jobs.append(("ev", rid, ev, OV_NAMES[rid % len(OV_NAMES)]))
    # scaled family: the same lattice points at mass scales 1/1000, 1/100000 and 1000 (the property is
    # scale invariant; an absolute tolerance or threshold in the implementation is not)
    base = [j for j in jobs if j[0] == "box" and j[3] > 0]
    evs = [j for j in jobs if j[0] == "ev"]
    for j in rng.sample(base, min(len(base), 12000 if tier == "thorough" else 1200)):
        rid += 1
        jobs.append(("box", rid, j[2], j[3], j[4], OV_NAMES[rid % len(OV_NAMES)], SCALES[rid % len(SCALES)]))
    for j in rng.sample(evs, min(len(evs), 1500 if tier == "thorough" else 240)):
        rid += 1
        jobs.append(("ev", rid, j[2], OV_NAMES[rid % len(OV_NAMES)], SCALES[rid % len(SCALES)]))
    # symbolic family: the same points through a formulation in the conventional symbols with the particles in another role
    for j in rng.sample(base, min(len(base), 3000 if tier == "thorough" else 300)):
        rid += 1
        jobs.append(("box", rid, j[2], j[3], j[4], OV_NAMES[rid % len(OV_NAMES)], (1, 1), 1 + rid % 6))
    for j in rng.sample(evs, min(len(evs), 600 if tier == "thorough" else 90)):
        rid += 1
        jobs.append(("ev", rid, j[2], OV_NAMES[rid % len(OV_NAMES)], (1, 1), 1 + rid % 6))
    n = 2000 if tier == "thorough" else 250
    for _ in range(n):
        rid += 1
        d = rng.choice([1, 1, 2, 3])
        jobs.append(("kal", rid, tuple(rng.randint(-12, 12) for _ in range(3)), d))
    for _ in range(n):
        rid += 1
        jobs.append(("kaf", rid, (rng.randint(-6, 60), rng.randint(0, 6), rng.randint(0, 6)), rng.choice([1, 1, 2])))
    return jobs


def run_impl(jobs, procs: int = 6) -> list[dict]:
    if len(jobs) < 200:
        return [evaluate(j) for j in jobs]
    ctx = mp.get_context("fork")
    with ctx.Pool(procs) as pool:
        return pool.map(evaluate, jobs, chunksize=250)


# ---- exact re-evaluation of a rejected clause (never a verdict of its own: guards against a
# ---- specification/encoding error raising a false alarm) -----------------------------------


def _frac(v):
    return Fraction(v[0], v[1])


def confirm(clause: str, rec: dict) -> bool:
    if clause == "Sigma3":
        p1, p2 = rec["p"][0], rec["p"][1]
        q = ps.vadd(p1, p2)
        return _frac(rec["s3"]) != ps.dot(q, q)
    if clause == "KibbleNonPositive":
        return rec["kib"][0] > 0
    if clause == "IndicatorEvent":
        return rec["ind"] != ONE
    if clause == "IndicatorRange":
        return rec["ind"] != ONE and rec["ind"] != rec["ov"]
    if clause == "IndicatorBox":
        m0, m1, m2, m3 = (x * x for x in rec["m"])
        s1, s2 = rec["s"]
        # PDG limits: |4 s1 s2 - mid4| <= 2 sqrt(L1 L2), evaluated with unbounded integers
        a, b = s1 - m2 + m3, m0 - s1 - m1
        l1, l2 = a * a - 4 * s1 * m3, b * b - 4 * s1 * m1
        t = 4 * s1 * s2 - ((a + b) ** 2 - l1 - l2)
        inside = l1 >= 0 and l2 >= 0 and t * t <= 4 * l1 * l2
        return rec["ind"] != (ONE if inside else rec["ov"])
    if clause == "KallenSymmetric":
        return len({tuple(v) for v in rec["vals"]}) > 1 or any(abs(v[0]) >= ps.INT_MAX for v in rec["vals"])
    if clause == "KallenFactorises":
        x, b, c = rec["a"]
        e = rec["e"]
        return abs(rec["val"][0]) >= ps.INT_MAX or _frac(rec["val"]) != Fraction((x - (b + c) ** 2) * (x - (b - c) ** 2), e**4)
    if clause == "KallenValue":
        # (x - (sqrt y + sqrt z)^2)(x - (sqrt y - sqrt z)^2), exact SymPy algebra (also for y, z < 0)
        import sympy as sp

        if abs(rec["vals"][0][0]) >= ps.INT_MAX:
            return True
        x, y, z = (sp.Rational(v, rec["d"]) for v in rec["a"])
        f = sp.expand((x - (sp.sqrt(y) + sp.sqrt(z)) ** 2) * (x - (sp.sqrt(y) - sp.sqrt(z)) ** 2))
        return sp.simplify(f - sp.Rational(*rec["vals"][0])) != 0
    return False


def signature(clause: str, rec: dict, info) -> str:
    sig = _signature(clause, rec, info) + (f":raises({rec['exc']})" if rec.get("exc") else "")
    sc = rec.get("sc", [1, 1])
    if rec.get("sym"):
        sig += ":symbolic-formulation-with-roles-" + "".join(map(str, ROLES[rec["sym"]]))
    return sig if sc == [1, 1] else f"{sig}:at-mass-scale-x{sc[0]}/{sc[1]}"


def _signature(clause: str, rec: dict, info) -> str:
    if clause == "IndicatorBox":
        M = tuple(x * x for x in rec["m"])
        on = ps.kibble_int(rec["s"][0], rec["s"][1], M) == 0
        if info[3] == "inside":
            return "IndicatorBox:point-inside-PDG-limits-not-1" + (":on-boundary(Kibble=0)" if on else "")
        if rec["ind"] == ONE:
            return "IndicatorBox:point-outside-PDG-limits-classified-inside"
        return f"IndicatorBox:outside_value-not-returned(outside_value={rec['ovname']})"
    if clause == "IndicatorEvent":
        M, S = ps.invariants([tuple(p) for p in rec["p"]])
        return "IndicatorEvent:physical-event-not-1" + (":collinear(Kibble=0)" if ps.kibble_int(S[0], S[1], M) == 0 else "")
    if clause == "IndicatorRange":
        return f"IndicatorRange:neither-1-nor-outside_value(outside_value={rec['ovname']})"
    return f"{clause}:{rec['k']}"


VIOLATION_CLAUSES = {"Sigma3", "KibbleNonPositive", "IndicatorEvent", "IndicatorBox", "IndicatorRange", "KallenSymmetric", "KallenFactorises", "KallenValue"}
NEEDED_STATS = ["ev", "ev_boundary", "ev_massless", "ev_equalmass", "box_inside", "box_outside", "box_on_boundary", "ov_nan", "ov_rational", "kal", "kaf", "scaled", "symbolic"]


def validate(records, par: int = 4, batch: int = 15000):
    batches = list(ps.chunks(records, batch))
    with ThreadPoolExecutor(max_workers=par) as ex:
        return list(zip(batches, ex.map(lambda b: trace.validate("Trace_C20", b, timeout=1700), batches)))


def run_tlaps(chk, module: str, timeout: int) -> dict:
    """tlapm on spec/<module>.tla in a scratch copy; a timeout / unproved obligation is reported,
    never a failure."""
    tmp = Path(tempfile.mkdtemp(prefix="vf_tlaps_"))
    t0 = time.time()
    try:
        shutil.copy(tlc.SPEC_DIR / f"{module}.tla", tmp)
        src_lines = (tlc.SPEC_DIR / f"{module}.tla").read_text().splitlines()
        try:
            env = dict(os.environ, TMPDIR=str(tmp))
            p = subprocess.Popen(["tlapm", "--toolbox", "0", "0", f"{module}.tla"], cwd=tmp, stdout=subprocess.PIPE, stderr=subprocess.STDOUT,
                                 text=True, start_new_session=True, env=env)
            try:
                out, _ = p.communicate(timeout=timeout)
                timed_out = False
            except subprocess.TimeoutExpired:
                os.killpg(p.pid, signal.SIGKILL)  # tlapm and every back-end process it started
                out, _ = p.communicate()
                timed_out = True
        except FileNotFoundError:
            return {"available": False}
    finally:
        shutil.rmtree(tmp, ignore_errors=True)
    # last status per obligation id; obligations are named after the enclosing THEOREM/LEMMA
    status: dict[str, str] = {}
    where: dict[str, int] = {}
    cur = {}
    for ln in out.splitlines():
        if ln.startswith("@!!BEGIN"):
            cur = {}
        elif ln.startswith("@!!id:"):
            cur["id"] = ln[6:].strip()
        elif ln.startswith("@!!loc:"):
            cur["line"] = int(ln[7:].split(":")[0])
        elif ln.startswith("@!!status:"):
            cur["status"] = ln[10:].strip()
        elif ln.startswith("@!!END"):
            if "id" in cur and "status" in cur:
                status[cur["id"]] = cur["status"]
                where[cur["id"]] = cur.get("line", where.get(cur["id"], 0))
    names = []
    for n, ln in enumerate(src_lines, 1):
        if ln.startswith(("THEOREM", "LEMMA")):
            names.append((n, ln.split()[1]))

    def name_of(line):
        best = "?"
        for n, nm in names:
            if n <= line:
                best = nm
        return f"{best}@line{line}"

    proved = sum(1 for s in status.values() if s in ("proved", "trivial"))
    res = {"available": True, "obligations": len(status), "discharged": proved, "timed_out": timed_out,
           "not_proved": sorted(name_of(where[k]) for k, s in status.items() if s not in ("proved", "trivial")), "wall_s": round(time.time() - t0, 1),
           "cmd": f"tlapm --toolbox 0 0 {module}.tla"}
    return res


def run(chk, replay=None):
    tier = chk.tier
    rng = random.Random(chk.seed)
    chk.assume(
        "TLC/SANY; SymPy exact rational/surd arithmetic when evaluating the implementation at a point",
        "projection of SymPy numbers to 32-bit integers / [num, den] (out-of-range values clamped with their sign)",
        "masses enter the implementation only squared: events use m_i = sqrt(integer)",
        "the PDG limits are taken in discriminant form (square roots multiplied out); sigma1 = 0 is excluded from the 'exactly when' clause",
    )
    # 1. the reference on its own lattice (runs while the implementation is being evaluated) ------
    mc_pool = ThreadPoolExecutor(max_workers=1)
    mc_future = None
    if not replay:
        mc_future = mc_pool.submit(tlc.run, "PhaseSpace3_MC", MC_CFG.format(maxm0=9 if tier == "thorough" else 5, kalr=10 if tier == "thorough" else 6, kalb=5),
                                   workers=6, fast_start=False, timeout=1500)

    # 2. the implementation, exactly, on the lattices ---------------------------------------------
    if replay and replay.get("case"):
        jobs = [_tuplify(j) for j in replay["case"]["jobs"]]
    else:
        jobs = build_jobs(tier, rng)
    t0 = time.time()
    records = run_impl(jobs)
    chk.part("implementation", points=len(records), wall_s=round(time.time() - t0, 1))
    by_id = {r["id"]: (r, j) for r, j in zip(records, jobs)}
    chk.count(len(records))
    for r in records:
        if r["k"] == "box":
            if r["s"][0] > 0:
                chk.nontrivial(("box", tuple(r["m"]), tuple(r["s"]), tuple(r["sc"])))
        elif r["k"] == "ev":
            chk.nontrivial(("ev", tuple(map(tuple, r["p"])), tuple(r["sc"])))
        elif r["k"] == "kal":
            if len(set(r["a"])) > 1:
                chk.nontrivial(("kal", tuple(r["a"]), r["d"]))
        else:
            chk.nontrivial(("kaf", tuple(r["a"]), r["e"]))
    for fam in ("ev", "box", "kal", "kaf"):
        s = next((r for r in records if r["k"] == fam and (fam != "box" or r["ind"] != ONE)), None)
        if s:
            chk.sample(s)

    # 3. TLC judges -------------------------------------------------------------------------------
    stats: dict[str, int] = {}
    drift = {}
    for i, (batch, tv) in enumerate(validate(records)):
        chk.add_tlc(f"trace_{i}", tv.res, traces=len(batch))
        for k, v in tv.stats.items():
            stats[k] = stats.get(k, 0) + v
        for rej in tv.rejects:
            clause, rid, info = rej[0], rej[1], rej[2] if len(rej) > 2 else None
            rec, job = by_id[rid]
            if clause.startswith("Harness"):
                raise Machinery(f"{clause} failed for record {rec}: driver or specification error ({info})")
            if clause in VIOLATION_CLAUSES:
                if not confirm(clause, rec):
                    raise Machinery(f"TLC rejects {clause} for {rec} but the exact re-evaluation does not confirm it: specification/encoding error")
                chk.violation(signature(clause, rec, info), f"clause {clause} fails at {({k: v for k, v in rec.items() if k != 'id'})}; TLC: {info}", {"jobs": [list(job)]})
            else:
                drift.setdefault(clause, rec)
    for clause, rec in drift.items():
        chk.spec_drift(f"{clause}: the implementation's value differs from the reference value although no clause of the property is contradicted by it, e.g. at {rec}")
    if mc_future is not None:
        res = mc_future.result()
        chk.add_tlc("reference_exhaustive", res)
        if not res.ok:
            raise Machinery(f"the reference PhaseSpace3 violates its own law {res.violated}: specification error\n" + "\n".join(res.error_trace[:40]))
    mc_pool.shutdown()
    chk.part("trace_stats", **stats)
    if not replay:
        missing = [k for k in NEEDED_STATS if stats.get(k, 0) == 0]
        if missing:
            raise Machinery(f"vacuous run: no record exercised {missing}")
    chk.cov["rule"] = (
        "box: every integer (sigma1, sigma2) of the bounding box of each integer mass configuration (quick: all with m0 <= 4 plus 14 with "
        "m0 <= 7 incl. massless/equal-mass; thorough: all 210 with m0 <= 7), outside values rotated over {default, 0, -1, 5/2, nan, -7/3}; "
        "scaled: a seeded subset of the box points and events evaluated exactly at mass scales 1/1000, 1/100000 and 1000 (masses*lam, sigma*lam^2 as "
        "SymPy rationals), judged by TLC on the unscaled integer point; "
        "ev: stratified integer four-vector events (E <= 3, |p| <= 2, m0^2 <= 49; massless, equal-mass, collinear, moving parent); "
        "kal/kaf: seeded Kallen arguments (integers, halves, thirds; perfect squares). One record = one exact evaluation of the "
        "implementation validated by TLC (counted as a trace). Non-trivial/distinct: distinct lattice points with sigma1 > 0 (box), "
        "distinct events, Kallen triples with at least two different arguments"
    )
    chk.cov["exhaustive"] = False

    if tier == "thorough" and not replay:
        # 4. binding demonstration: one corrupted field must be rejected with the right clause ----
        demo = []
        pick = {
            "Sigma3": next(r for r in records if r["k"] == "ev"),
            "IndicatorBox": next(r for r in records if r["k"] == "box" and r["ind"] == ONE and r["s"][0] > 0),
            "KallenSymmetric": next(r for r in records if r["k"] == "kal"),
        }
        bad = dict(pick["Sigma3"]); bad["s3"] = [bad["s3"][0] + 1, bad["s3"][1]]; demo.append(("Sigma3", bad))
        bad = dict(pick["IndicatorBox"]); bad["ind"] = bad["ov"]; demo.append(("IndicatorBox", bad))
        bad = dict(pick["KallenSymmetric"]); bad["vals"] = [list(v) for v in bad["vals"]]; bad["vals"][3][0] += 1; demo.append(("KallenSymmetric", bad))
        tv = trace.validate("Trace_C20", [b for _, b in demo])
        got = {(r[0], r[1]) for r in tv.rejects}
        for clause, b in demo:
            if (clause, b["id"]) not in got:
                raise Machinery(f"binding demonstration failed: corrupted record {b} was not rejected by clause {clause} (got {tv.rejects})")
        ok = trace.validate("Trace_C20", [pick[c] for c, _ in demo])
        if ok.rejects:
            raise Machinery(f"binding demonstration: the uncorrupted records are rejected {ok.rejects}")
        chk.part("binding_demo", corrupted=[c for c, _ in demo], rejected=sorted(f"{c}@{i}" for c, i in got))
        # 5. TLAPS ------------------------------------------------------------------------------------
        tl = run_tlaps(chk, "PhaseSpace3_Proofs", timeout=700)
        chk.part("tlaps", **tl)
        if tl.get("available") and (tl["timed_out"] or tl["not_proved"]):
            chk.note(f"TLAPS: {tl['discharged']}/{tl['obligations']} obligations discharged; not proved (reported, model-checked instead): {tl['not_proved']}")
